"""C13 All ways of reading the same source deliver the same data."""
import ast

from .common import *  # noqa

BM = "dendropy.datamodel.basemodel"
DIO = "dendropy.dataio."
TREE = "dendropy.datamodel.treemodel._tree.Tree"
TL = "dendropy.datamodel.treecollectionmodel.TreeList"


def branch_map(fn_node, var=None):
    """token literal -> (set of self-call names, set of assigned names) in the branch it guards."""
    out = {}
    if var is None:
        # the token variable: the local most often assigned from next_token_ucase()
        cnt = {}
        for n in ast.walk(fn_node):
            if isinstance(n, ast.Assign) and isinstance(n.value, ast.Call) and call_name(n.value) in ("next_token_ucase", "cast_current_token_to_ucase") and isinstance(n.targets[0], ast.Name):
                cnt[n.targets[0].id] = cnt.get(n.targets[0].id, 0) + 1
        var = max(cnt, key=cnt.get) if cnt else "token"

    def lits(test):
        r = set()
        for c in ast.walk(test):
            if isinstance(c, ast.Compare) and norm(c.left) == var:
                for comp in c.comparators:
                    if isinstance(comp, ast.Constant) and isinstance(comp.value, str):
                        r.add(comp.value)
                    elif isinstance(comp, (ast.List, ast.Tuple, ast.Set)):
                        r |= {e.value for e in comp.elts if isinstance(e, ast.Constant) and isinstance(e.value, str)}
        return r
    for n in ast.walk(fn_node):
        if isinstance(n, ast.If):
            ptest, tbody, fbody = pos_if(n)
            ls = lits(ptest)
            if not ls or isinstance(ptest, ast.BoolOp) and isinstance(ptest.op, ast.And) and len(ls) > 2:
                continue
            calls, assigns = set(), set()
            for s in tbody:
                for c in ast.walk(s):
                    if isinstance(c, ast.Call) and isinstance(c.func, ast.Attribute) and isinstance(c.func.value, ast.Name) and c.func.value.id == "self":
                        calls.add(c.func.attr)
                    if isinstance(c, ast.Assign):
                        for t in c.targets:
                            if isinstance(t, ast.Name):
                                assigns.add(t.id)
                    if isinstance(c, ast.Raise):
                        calls.add("<raise>")
            for l in ls:
                a, b = out.get(l, (set(), set()))
                out[l] = (a | calls, b | assigns)
    return out


def mode_pairing_rule(index, rep, rid):
    """`-` is an ordinary character of labels and numbers except inside a position list: every function that turns
    hyphens into tokens (set_hyphens_as_captured_delimiters(True)) turns them off again on every normal exit, with
    the constant False or a value saved BEFORE it switched them on."""
    n = 0
    for f in index.functions.values():
        if not f.module.name.startswith("dendropy.dataio"):
            continue
        calls = [c for c in calls_in(f.node) if call_name(c) == "set_hyphens_as_captured_delimiters" and c.args]
        on = [c for c in calls if const_value(c.args[0], None) is True]
        if not on or f.name == "set_hyphens_as_captured_delimiters":
            continue
        cfg = cfg_of(f)
        for c in on:
            n += 1
            cn = node_of_ast(cfg, c)

            def releases(x, cn=cn):
                for r in node_calls(x):
                    if call_name(r) == "set_hyphens_as_captured_delimiters" and r.args and r is not c:
                        a = r.args[0]
                        if const_value(a, None) is False:
                            return True
                        if isinstance(a, ast.Name):
                            defs = [d for d in cfg.nodes if d.kind == "stmt" and isinstance(d.ast, ast.Assign) and norm(d.ast.targets[0]) == a.id]
                            # saved before the switch: no definition of the saved value is reachable from the switch-on
                            if defs and all(cfg.can_reach(cn, lambda y, d=d: y is d, follow_exc=False) is None for d in defs):
                                return True
                return False
            ok, w = cfg.must_pass(cn, releases)
            rep.check(ok, rid, f.qualname, "hyphens left as tokens on some exit", fn_where(f, c), "%s switches hyphens back to ordinary characters on every normal exit" % f.qualname,
                      "%s switches the tokenizer to hyphens-as-tokens and has a normal exit that does not switch it back (or restores a value it read only AFTER switching): for the rest of the file `-` is a token of its own, so a later hyphenated label, negative number or exponent (`1.5e-05`) is split and the document read in full differs from the tree-only routes or fails to parse" % f.qualname)
    return n


def run(index, rep, tier):
    rep.rule("R13.1", "source dispatch converges: file/path/data/url each reach _parse_and_create_from_stream / _parse_and_add_from_stream with the same schema/kwargs and a stream built from the source without transformation")
    rep.rule("R13.2", "one tree-statement parser: in the Newick/NEXUS readers and yielders nodes are created from tokens only in NewickReader._parse_tree_node_description, reached through NewickReader._parse_tree_statement")
    rep.rule("R13.3", "clone agreement: the NEXUS reader's and the NEXUS tree yielder's block parsers have the same token branches, callees and loop guards modulo the declared differences; the Newick reader's and yielder's tokenizer/mapper constructions agree")
    rep.rule("R13.4", "offsets select, never re-parse or alter: Tree.get returns tree_lists[collection_offset][tree_offset] of the full read; TreeList.get appends target[tree_offset:]")
    rep.rule("R13.5", "every DataReader service (read_dataset/read_tree_lists/read_char_matrices) delegates to the same _read with the stream unchanged; registry rows pair reader and yielder of the same family")

    # ---- R13.1
    with rep.section("R13.1"):
        for cq, entry, helpers, sink in ((BM + ".Deserializable", "_get_from", ["get_from_stream", "get_from_path", "get_from_string", "get_from_url"], "_parse_and_create_from_stream"),
                                         (BM + ".MultiReadable", "_read_from", ["read_from_stream", "read_from_path", "read_from_string", "read_from_url"], "_parse_and_add_from_stream")):
            e = index.function(cq + "." + entry)
            called = {call_name(c) for c in calls_in(e.node)}
            for h in helpers:
                rep.check(h in called, "R13.1", e.qualname, "dispatch to " + h, fn_where(e), "%s dispatches to %s" % (entry, h), "%s no longer dispatches to %s" % (e.qualname, h))
            unpack = [n for n in ast.walk(e.node) if isinstance(n, ast.Assign) and isinstance(n.targets[0], ast.Tuple) and len(n.targets[0].elts) == 3
                      and isinstance(n.value, ast.Call) and "_extract_serialization_target_keyword" in norm(n.value.func)]
            srcv, schv = (norm(unpack[0].targets[0].elts[1]), norm(unpack[0].targets[0].elts[2])) if unpack else ("src", "schema")
            for c in calls_in(e.node):
                if call_name(c) in helpers:
                    kw = {k.arg: norm(k.value) for k in c.keywords if k.arg}
                    ok = kw.get("src") == srcv and kw.get("schema") == schv and has_star_kwargs(c)
                    rep.check(ok, "R13.1", e.qualname, "%s(%s)" % (call_name(c), kw), fn_where(e, c), "%s forwards src, schema and **kwargs unchanged to %s" % (entry, call_name(c)),
                              "%s calls %s with %s: the source, schema or keyword options are not forwarded unchanged on this route" % (e.qualname, call_name(c), kw))
            for h in helpers:
                f = index.function(cq + "." + h)
                sinks = [c for c in calls_in(f.node) if call_name(c) == sink]
                ok = len(sinks) == 1
                rep.check(ok, "R13.1", f.qualname, "single sink " + sink, fn_where(f), "%s has exactly one data-bearing call: %s" % (h, sink), "%s does not end in exactly one call of %s" % (f.qualname, sink))
                if not ok:
                    continue
                c = sinks[0]
                kw = {k.arg: k.value for k in c.keywords if k.arg}
                okk = norm(kw.get("schema")) == "schema" and has_star_kwargs(c) if kw.get("schema") is not None else False
                rep.check(okk, "R13.1", f.qualname, "schema/**kwargs forwarded", fn_where(f, c), "%s forwards schema=schema, **kwargs" % h, "%s does not forward schema and **kwargs unchanged to %s" % (f.qualname, sink))
                st = kw.get("stream")
                src_param = [p for p in f.params if p not in ("self", "cls")][0]
                okst = False
                how = norm(st) if st is not None else None
                if st is not None:
                    if norm(st) == src_param:
                        okst = True
                    elif isinstance(st, ast.Name):
                        defs = [d for d in ast.walk(f.node) if (isinstance(d, ast.Assign) and norm(d.targets[0]) == st.id) or (isinstance(d, ast.withitem) and d.optional_vars is not None and norm(d.optional_vars) == st.id)]
                        for d in defs:
                            v = d.value if isinstance(d, ast.Assign) else d.context_expr
                            how = norm(v)
                            if isinstance(v, ast.Call) and call_name(v) == "StringIO" and len(v.args) == 1:
                                a = v.args[0]
                                if norm(a) == src_param:
                                    okst = True
                                elif isinstance(a, ast.Name):
                                    # text fetched from the url, unchanged
                                    d2 = [x for x in ast.walk(f.node) if isinstance(x, ast.Assign) and norm(x.targets[0]) == a.id]
                                    okst = bool(d2) and isinstance(d2[0].value, ast.Call) and "read_url" in norm(d2[0].value.func)
                            elif isinstance(v, ast.Call) and call_name(v) == "open" and v.args and norm(v.args[0]) == src_param:
                                okst = True
                rep.check(okst, "R13.1", f.qualname, "stream built as %s" % how, fn_where(f, c), "%s hands the parser a stream over the untransformed source (%s)" % (h, how),
                          "%s builds the parser's stream as `%s`: the source text is transformed on this route, so reading from a string, a stream and a path no longer give identical results" % (f.qualname, how))

    # ---- R13.2
    with rep.section("R13.2"):
        builders = []
        for m in ("newickreader", "newickyielder", "nexusreader", "nexusyielder"):
            for f in index.functions_in_module(DIO + m):
                for c in calls_in(f.node, nested=True):
                    if call_name(c) in ("node_factory", "add_child", "new_child", "insert_child") and isinstance(c.func, ast.Attribute):
                        builders.append((f, c))
        rep.floor("R13.2", "node-building calls in the Newick/NEXUS readers", 6, len(builders))
        for f, c in builders:
            ok = f.qualname == DIO + "newickreader.NewickReader._parse_tree_node_description"
            rep.check(ok, "R13.2", f.qualname, "builds nodes: " + norm(c)[:60], fn_where(f, c), "nodes are built from tokens in _parse_tree_node_description only",
                      "%s builds tree nodes itself (`%s`): a second tree-statement parser, so routes through it can disagree with the others" % (f.qualname, norm(c)[:60]))
        routes = [
            (DIO + "newickreader.NewickReader.tree_iter", "self"),
            (DIO + "newickyielder.NewickTreeDataYielder._yield_items_from_stream", "self.newick_reader"),
            (DIO + "nexusreader.NexusReader._build_tree_from_newick_tree_string", "self.newick_reader"),
        ]
        for q, recv in routes:
            f = index.function(q)
            cs = [c for c in calls_in(f.node) if call_name(c) == "_parse_tree_statement"]
            ok = len(cs) == 1 and norm(cs[0].func.value) == recv
            rep.check(ok, "R13.2", f.qualname, "delegates to %s._parse_tree_statement" % recv, fn_where(f), "%s parses each tree statement with %s._parse_tree_statement" % (f.name, recv),
                      "%s no longer parses tree statements with the shared NewickReader._parse_tree_statement" % f.qualname)
        for q in (DIO + "nexusreader.NexusReader._parse_tree_statement",):
            f = index.function(q)
            ok = any(call_name(c) == "_build_tree_from_newick_tree_string" for c in calls_in(f.node))
            rep.check(ok, "R13.2", f.qualname, "TREE statement -> shared parser", fn_where(f), "NEXUS TREE statements go through _build_tree_from_newick_tree_string", "NexusReader._parse_tree_statement no longer uses the shared Newick statement parser")
        yq = index.function(DIO + "nexusyielder.NexusTreeDataYielder._yield_from_trees_block")
        ok = any(call_name(c) == "_parse_tree_statement" and norm(c.func.value) == "self" for c in calls_in(yq.node))
        rep.check(ok, "R13.2", yq.qualname, "yielder TREE statement -> NexusReader._parse_tree_statement", fn_where(yq), "the yielder parses TREE statements with the reader's own _parse_tree_statement",
                  "the NEXUS yielder no longer parses TREE statements with NexusReader._parse_tree_statement")

    # ---- R13.3
    with rep.section("R13.3"):
        pairs = [
            (DIO + "nexusreader.NexusReader._parse_nexus_stream", DIO + "nexusyielder.NexusTreeDataYielder._yield_items_from_stream",
             {"CHARACTERS", "DATA", "SETS", "ASSUMPTIONS", "CODONS", "TITLE", "LINK", "CHARSET", "END", "ENDBLOCK"}, set()),
            (DIO + "nexusreader.NexusReader._parse_trees_block", DIO + "nexusyielder.NexusTreeDataYielder._yield_from_trees_block",
             set(), {"_new_tree_list"}),
        ]
        for rq, yq_, only_reader, ignore_calls in pairs:
            rf, yf = index.function(rq), index.function(yq_)
            rm, ym = branch_map(rf.node), branch_map(yf.node)
            rep.floor("R13.3", "token branches in " + rf.name, 3, len(rm))
            for lit in sorted(set(rm) | set(ym)):
                if lit in only_reader and lit not in ym:
                    rep.ob("R13.3", fn_where(rf), "branch %r: reader only (declared difference: the yielder skips non-tree blocks)" % lit, True, nontrivial=False)
                    continue
                if lit not in rm or lit not in ym:
                    who = "yielder" if lit not in ym else "reader"
                    rep.check(False, "R13.3", (yf if lit not in ym else rf).qualname, "branch %r missing in %s" % (lit, who), fn_where(yf if lit not in ym else rf),
                              "token branch %r exists in both front ends" % lit,
                              "the NEXUS %s (%s) has no branch for the token %r that its sibling handles: the one-tree-at-a-time route and the whole-file route treat such documents differently" % (who, (yf if lit not in ym else rf).qualname, lit))
                    continue
                rc = rm[lit][0] - ignore_calls
                yc = {{"_yield_from_trees_block": "_parse_trees_block"}.get(x, x) for x in ym[lit][0]} - ignore_calls
                rep.check(rc == yc, "R13.3", yf.qualname, "branch %r callees differ: reader %s / yielder %s" % (lit, sorted(rc), sorted(yc)), fn_where(yf),
                          "branch %r calls the same parsers in both front ends: %s" % (lit, sorted(rc)),
                          "for the token %r the NEXUS reader calls %s but the tree yielder calls %s: the two front ends parse the same block differently" % (lit, sorted(rc), sorted(yc)))
            rl = [norm(l.test) for l in ast.walk(rf.node) if isinstance(l, ast.While)]
            yl = [norm(l.test) for l in ast.walk(yf.node) if isinstance(l, ast.While)]
            common = [t for t in rl if t in yl]
            missing = [t for t in rl if t not in yl and "SETS" not in t and "END" not in t or (t not in yl and rq.endswith("_parse_trees_block"))]
            if rq.endswith("_parse_nexus_stream"):
                missing = [t for t in rl if t not in yl and not ("== 'END'" in t)]
            rep.check(not missing, "R13.3", yf.qualname, "loop guards differ: %s" % missing, fn_where(yf), "loop guards agree (%d shared)" % len(common),
                      "loop guard(s) %s of %s have no counterpart in %s: the two front ends stop at different points" % (missing, rf.qualname, yf.qualname))
            # block-local state: what the two parsers initialise before their token loop, and what they keep on self
            def pre_loop_inits(f):
                out = {}
                for st in f.node.body:
                    if isinstance(st, ast.While):
                        break
                    if isinstance(st, ast.Assign) and len(st.targets) == 1 and isinstance(st.targets[0], ast.Name):
                        out[st.targets[0].id] = norm(st.value)
                return out
            ri, yi = pre_loop_inits(rf), pre_loop_inits(yf)
            for v in sorted(set(ri) & set(yi)):
                rep.check(ri[v] == yi[v], "R13.3", yf.qualname, "block-local `%s` initialised differently: reader %s / yielder %s" % (v, ri[v], yi[v]), fn_where(yf),
                          "block-local `%s` starts as %s in both front ends" % (v, ri[v]),
                          "%s starts each block with `%s = %s` where the reader starts with `%s = %s`: state is carried from one block into the next on the one-tree-at-a-time route only (e.g. a taxon symbol mapper built for the previous block's TRANSLATE table), so the two routes resolve the same labels differently" % (yf.qualname, v, yi[v], v, ri[v]))
            rs = {w.attr for w in writes_in(rf.node) if w.kind in ("store", "augstore") and w.base is not None and norm(w.base) == "self"}
            # a store of None is a reset, not state kept from one block to the next
            ys = {w.attr for w in writes_in(yf.node) if w.kind in ("store", "augstore") and w.base is not None and norm(w.base) == "self" and not (w.kind == "store" and w.value is not None and is_none(w.value))}
            extra = sorted(ys - rs)
            rep.check(not extra, "R13.3", yf.qualname, "yielder keeps state on self that the reader does not: %s" % extra, fn_where(yf), "%s stores the same self attributes as %s (%s)" % (yf.name, rf.name, sorted(rs) or "none"),
                      "%s stores self.%s, which its sibling %s keeps block-local: parser state outlives the block on the one-tree-at-a-time route only" % (yf.qualname, ", self.".join(extra), rf.qualname))
        # newick reader vs yielder constructions
        rd = index.function(DIO + "newickreader.NewickReader._read")
        ti = index.function(DIO + "newickreader.NewickReader.tree_iter")
        yd = index.function(DIO + "newickyielder.NewickTreeDataYielder._yield_items_from_stream")

        def ctor_kw(fs, name):
            for f in fs:
                for c in calls_in(f.node):
                    if call_name(c) == name:
                        # the yielder must read the options from the reader it wraps: `self.newick_reader.X` is read as the reader's
                        # `self.X`; an attribute of the yielder itself is a separately kept copy (marked, so that it cannot compare equal)
                        out = {}
                        for k in c.keywords:
                            if not k.arg or k.arg in ("taxon_namespace",):
                                continue
                            t = norm(k.value)
                            if f.cls is not None and f.cls.name.endswith("Yielder"):
                                t = t.replace("self.newick_reader.", "self.") if "self.newick_reader." in t else (("<yielder's own copy> " + t) if t.startswith("self.") else t)
                            out[k.arg] = t
                        return out
            return None
        for name in ("NexusTokenizer", "NexusTaxonSymbolMapper"):
            a, b = ctor_kw([rd, ti], name), ctor_kw([yd], name)
            rep.check(a is not None and a == b, "R13.3", yd.qualname, "%s(...) reader %s / yielder %s" % (name, a, b), fn_where(yd), "%s is constructed with the same options on both Newick routes: %s" % (name, a),
                      "the Newick reader builds %s with %s, the Newick yielder with %s: labels/underscores/taxon lookup behave differently on the two routes" % (name, a, b))

    # ---- R13.4
    with rep.section("R13.4"):
        tf = index.function(TREE + "._parse_and_create_from_stream")
        subs = [norm(n) for n in walk_no_nested(tf.node) if isinstance(n, ast.Assign) and isinstance(n.value, ast.Subscript) for n in [n.value]]
        rd_ = [n for n in walk_no_nested(tf.node) if isinstance(n, ast.Assign) and isinstance(n.value, ast.Call) and call_name(n.value) == "read_tree_lists"]
        tlsv = norm(rd_[0].targets[0]) if rd_ else "tree_lists"
        sel1 = [n for n in walk_no_nested(tf.node) if isinstance(n, ast.Assign) and norm(n.value) == tlsv + "[collection_offset]"]
        tlv = norm(sel1[0].targets[0]) if sel1 else "tree_list"
        ok = bool(sel1) and (tlv + "[tree_offset]") in subs
        rep.check(ok, "R13.4", tf.qualname, "selection %s" % subs, fn_where(tf), "Tree.get selects tree_lists[collection_offset][tree_offset] from the full read", "Tree._parse_and_create_from_stream selects with %s" % subs)
        reads = [c for c in calls_in(tf.node) if call_name(c) == "read_tree_lists"]
        rep.check(len(reads) == 1, "R13.4", tf.qualname, "single full read", fn_where(tf), "Tree.get performs one full read_tree_lists", "Tree.get no longer performs exactly one full read")
        # the selected tree is returned as read: stores into it after selection
        sel = [n for n in walk_no_nested(tf.node) if isinstance(n, ast.Assign) and norm(n.value) == tlv + "[tree_offset]"]
        if sel:
            tv = norm(sel[0].targets[0])
            for n in walk_no_nested(tf.node):
                if isinstance(n, ast.Assign) and isinstance(n.targets[0], ast.Attribute) and norm(n.targets[0].value) == tv:
                    cfg = cfg_of(tf)
                    nn = stmt_nodes(cfg, n)[0]
                    guarded = cfg.dominated_by(nn, lambda m: m.kind == "test" and norm(n.value) in names_in(m.ast))
                    rep.check(guarded, "R13.4", tf.qualname, "selected tree altered: " + norm_stmt(n), fn_where(tf, n), "the selected tree is handed back as read",
                              "Tree._parse_and_create_from_stream overwrites `%s` on the selected tree unconditionally (`%s`): the single-tree route delivers a tree whose %s differs from the one the tree-list routes deliver for the same source"
                              % (norm(n.targets[0]), norm_stmt(n), n.targets[0].attr))
        lf = index.function(TL + "._parse_and_create_from_stream")
        loops = [norm(f.iter) for f in walk_no_nested(lf.node) if isinstance(f, ast.For)]
        rd2 = [n for n in walk_no_nested(lf.node) if isinstance(n, ast.Assign) and isinstance(n.value, ast.Call) and call_name(n.value) == "read_tree_lists"]
        tls2 = norm(rd2[0].targets[0]) if rd2 else "tree_lists"
        selc = [n for n in walk_no_nested(lf.node) if isinstance(n, ast.Assign) and norm(n.value) == tls2 + "[collection_offset]"]
        ttl = norm(selc[0].targets[0]) if selc else "target_tree_list"
        ok = (ttl + "[tree_offset:]") in loops and ttl in loops
        rep.check(ok, "R13.4", lf.qualname, "appends %s" % loops, fn_where(lf), "TreeList.get appends target[tree_offset:] (or all of it)", "TreeList._parse_and_create_from_stream iterates %s" % loops)
        rep.check(len(selc) == 1, "R13.4", lf.qualname, "collection selection", fn_where(lf), "TreeList.get selects tree_lists[collection_offset]", "TreeList.get no longer selects the collection with <read result>[collection_offset]")

    # ---- R13.4 offsets forwarded unchanged by the incremental read
    with rep.section("R13.4 offsets forwarded unchanged"):
        af = index.function(TL + "._parse_and_add_from_stream")
        dc = [c for c in calls_in(af.node) if call_name(c) == "_parse_and_create_from_stream"]
        if len(dc) != 1:
            raise AnalysisError("R13.4: TreeList._parse_and_add_from_stream does not delegate to _parse_and_create_from_stream exactly once")
        for off in ("collection_offset", "tree_offset"):
            if off not in af.all_params:
                raise AnalysisError("R13.4: TreeList._parse_and_add_from_stream has no parameter %s" % off)
            v = get_kwarg(dc[0], off)
            rebound = [n for n in walk_no_nested(af.node) if isinstance(n, (ast.Assign, ast.AugAssign)) and any(isinstance(t, ast.Name) and t.id == off for t in (n.targets if isinstance(n, ast.Assign) else [n.target]))]
            ok = v is not None and norm(v) == off and not rebound
            rep.check(ok, "R13.4", af.qualname, "%s not forwarded as given: %s" % (off, norm_stmt(rebound[0])[:60] if rebound else (norm(v) if v is not None else "not passed")), fn_where(af, rebound[0] if rebound else dc[0]),
                      "TreeList.read forwards %s unchanged to the routine TreeList.get uses" % off,
                      "TreeList._parse_and_add_from_stream %s before delegating to _parse_and_create_from_stream: the callee tells 'offset given' from 'offset omitted' by `is None` (an explicit tree_offset selects the first collection only), so read(..., %s=0) appends a different set of trees from get(..., %s=0) on a source with several collections"
                      % ("rebinds `%s` (`%s`)" % (off, norm_stmt(rebound[0])[:60]) if rebound else "does not pass `%s` as it was given" % off, off, off))

    # ---- R13.6
    with rep.section("R13.6"):
        rep.rule("R13.6", "tokenizer modes do not leak: a reader function that switches hyphens to tokens switches them back on every normal exit (otherwise the whole-document route tokenizes the rest of the file differently from the tree-only routes)")
        rep.floor("R13.6", "functions switching hyphens to tokens", 1, mode_pairing_rule(index, rep, "R13.6"))

    # ---- R13.4 offsets are numbers
    with rep.section("R13.4 offsets are numbers"):
        rep.floor("R13.4", "numeric names in the offset-handling modules", 20, numeric_truthiness_rule(index, rep, "R13.4", ["dendropy.datamodel.treecollectionmodel", "dendropy.datamodel.basemodel", "dendropy.dataio.ioservice"]))

    # ---- R13.5
    with rep.section("R13.5"):
        for name in ("read_dataset", "read_tree_lists", "read_char_matrices"):
            f = index.function(DIO + "ioservice.DataReader." + name)
            cs = [c for c in calls_in(f.node) if call_name(c) == "_read" and norm(c.func.value) == "self"]
            ok = len(cs) == 1 and norm(get_kwarg(cs[0], "stream")) == "stream" if cs and get_kwarg(cs[0], "stream") is not None else False
            rep.check(ok, "R13.5", f.qualname, "delegates to self._read(stream=stream)", fn_where(f), "%s delegates to the one _read with the stream unchanged" % name, "%s does not delegate to self._read(stream=stream, ...)" % f.qualname)
        mod = index.module("dendropy.dataio")
        rows = 0
        for n in ast.walk(mod.tree):
            if isinstance(n, ast.Assign) and isinstance(n.targets[0], ast.Subscript) and norm(n.targets[0].value) == "_IO_SERVICE_REGISTRY" and isinstance(n.value, ast.Call):
                args = n.value.args
                if len(args) == 3 and not is_none(args[0]) and not is_none(args[2]) and isinstance(n.targets[0].slice, ast.Constant):
                    rows += 1
                    r, y = norm(args[0]), norm(args[2])
                    fam = lambda s_: s_.split(".")[0].replace("reader", "").replace("yielder", "")
                    rep.check(fam(r) == fam(y), "R13.5", "dendropy.dataio", "registry row %s: %s / %s" % (norm(n.targets[0].slice), r, y), "src/dendropy/dataio/__init__.py:%d" % n.lineno,
                              "schema %s pairs reader %s with yielder %s" % (norm(n.targets[0].slice), r, y),
                              "the I/O registry pairs the reader %s with the tree yielder %s for schema %s: the iterator route parses with a different family of parser" % (r, y, norm(n.targets[0].slice)))
        rep.floor("R13.5", "registry rows with both reader and tree yielder", 3, rows)

    # ---- R13.7 every <otu> is its own taxon unless it names a member that was there before
    with rep.section("R13.7"):
        rep.rule("R13.7", "NeXML: one Taxon per <otu> element on every route - the label map that recognises members of an attached namespace is filled before the <otu> loop and only read inside it (two <otu> elements with equal labels stay two taxa whether or not a namespace is attached)")
        ptn = index.function("dendropy.dataio.nexmlreader.NexmlReader._parse_taxon_namespaces")
        loops = [l for l in ast.walk(ptn.node) if isinstance(l, ast.For) and "findall_otu" in norm(l.iter)]
        if len(loops) != 1:
            raise AnalysisError("R13.7: <otu> loop of _parse_taxon_namespaces not recognised")
        L = loops[0]
        probes = {norm(x.value) for x in ast.walk(L) if isinstance(x, ast.Subscript) and isinstance(x.ctx, ast.Load) and isinstance(x.value, ast.Name) and "label" in norm(x.slice)}
        probes |= {norm(c.func.value) for c in ast.walk(L) if isinstance(c, ast.Call) and isinstance(c.func, ast.Attribute) and c.func.attr == "get" and isinstance(c.func.value, ast.Name) and c.args and "label" in norm(c.args[0]) and "map" in norm(c.func.value)}
        if not probes:
            raise AnalysisError("R13.7: label lookup inside the <otu> loop not recognised")
        nst = 0
        for pmap in sorted(probes):
            ws = [x for x in ast.walk(L) if (isinstance(x, ast.Subscript) and isinstance(x.ctx, (ast.Store, ast.Del)) and norm(x.value) == pmap)
                  or (isinstance(x, ast.Call) and isinstance(x.func, ast.Attribute) and norm(x.func.value) == pmap and x.func.attr in MUTATORS)]
            nst += 1
            rep.check(not ws, "R13.7", ptn.qualname, "label map `%s` written inside the <otu> loop" % pmap, fn_where(ptn, ws[0] if ws else L), "`%s` is only read inside the <otu> loop" % pmap,
                      "_parse_taxon_namespaces stores into `%s` inside the loop over <otu> elements (`%s`): the map is consulted only when a namespace is attached, so with it growing during the loop a later <otu> with the same label is folded into the earlier one on the iterator / data-set routes while the list and single-tree routes (no attached namespace) keep two taxa - the routes no longer deliver the same trees" % (pmap, norm(ws[0])[:60] if ws else ""))
        rep.floor("R13.7", "label maps probed in the <otu> loop", 1, nst)

    # ---- R13.8 every file starts from a reader's initial state
    with rep.section("R13.8"):
        rep.rule("R13.8", "the file iterator starts every file the way a fresh reader does: each parse meta-variable that NexusReader.__init__ initialises with a constant and that a routine reachable from the iterator's per-stream function re-assigns while parsing is reset at the start of NexusTreeDataYielder._yield_items_from_stream (the list and data-set routes build a new reader per source)")
        rinit = index.function("dendropy.dataio.nexusreader.NexusReader.__init__")
        ys = index.function("dendropy.dataio.nexusyielder.NexusTreeDataYielder._yield_items_from_stream")
        consts = {}
        for a in walk_no_nested(rinit.node):
            if isinstance(a, ast.Assign) and is_self_attr(a.targets[0]) and a.targets[0].attr.startswith("_") and (isinstance(a.value, ast.Constant) or (isinstance(a.value, (ast.List, ast.Dict)) and not ast.dump(a.value).count("elts=[") == 0)):
                if isinstance(a.value, ast.Constant):
                    consts[a.targets[0].attr] = a
        # methods reachable from the per-stream function (self-calls, three levels)
        seen = {}
        work = [(ys, 0)]
        while work:
            f, d = work.pop()
            if f.qualname in seen or d > 3:
                continue
            seen[f.qualname] = f
            for c in calls_in(f.node, nested=True):
                grade, cands = index.resolve_call(c, f)
                if grade == "self":
                    for k in cands:
                        if hasattr(k, "node") and isinstance(k.node, ast.FunctionDef):
                            work.append((k, d + 1))
        written = {}
        for f in seen.values():
            if f is ys or f.name == "__init__":
                continue
            for w in writes_in(f.node):
                if w.kind == "store" and w.base is not None and norm(w.base) == "self" and w.attr in consts and not (w.value is not None and isinstance(w.value, ast.Constant) and w.value.value == consts[w.attr].value.value):
                    written.setdefault(w.attr, f)
        g = cfg_of(ys)
        firsts = [nd for nd in g.nodes if any(call_name(c) in ("next_token", "require_next_token", "next_token_ucase") for c in node_calls(nd))]
        if not firsts or not written:
            raise AnalysisError("R13.8: per-stream entry of the NEXUS tree iterator not recognised (%d token reads, %d document variables)" % (len(firsts), len(written)))
        managed = {x.attr for x in ast.walk(ys.node) if isinstance(x, ast.Attribute) and isinstance(x.ctx, ast.Load) and norm(x.value) == "self"}
        for attr, wf in sorted(written.items()):
            if attr in managed and not any(isinstance(a, ast.Assign) and any(norm(t) == "self." + attr for t in a.targets) for a in walk_no_nested(ys.node)):
                continue        # the per-stream function looks after this one itself (the tokenizer is re-pointed with set_stream)
            resets = lambda nd, attr=attr: nd.kind == "stmt" and isinstance(nd.ast, ast.Assign) and any(norm(t) == "self." + attr for t in nd.ast.targets) and isinstance(nd.ast.value, ast.Constant)
            ok = all(g.dominated_by(ft, resets, follow_exc=False) for ft in firsts[:1])
            rep.check(ok, "R13.8", ys.qualname, "document variable %s survives from one file to the next" % attr, fn_where(ys), "%s is reset before the first token of every stream" % attr,
                      "NexusTreeDataYielder._yield_items_from_stream reads the next file without resetting `self.%s`, which %s sets while parsing and NexusReader.__init__ starts at %s: one iterator instance serves all files, so the value declared by file 1 (NTAX=3) governs file 2 - its TRANSLATE block is refused with UndefinedTaxonError although the same two files read one after the other into a tree list are fine" % (attr, wf.qualname, norm(consts[attr].value)))
        rep.floor("R13.8", "document variables re-assigned while parsing", 1, len(written))

    # ---- R13.9 members that were there before the document are recognised on every route
    with rep.section("R13.9"):
        rep.rule("R13.9", "NeXML: whether an <otu> is matched by label against the members the namespace already had does not depend on the reading route: in _parse_taxon_namespaces no test on self.attached_taxon_namespace decides it (the attached mode only chooses which namespace object is used) - the list and single-tree routes hand in the caller's namespace through a factory, without attaching it")
        ptn = index.function("dendropy.dataio.nexmlreader.NexmlReader._parse_taxon_namespaces")
        g = cfg_of(ptn)
        tests = [t for t in g.nodes if t.kind == "test" and "attached_taxon_namespace" in norm(t.ast)]
        fills = [a for a in ast.walk(ptn.node) if isinstance(a, ast.Assign) and isinstance(a.targets[0], ast.Subscript) and "label" in norm(a.targets[0].slice) and "map" in norm(a.targets[0].value)]
        if not fills:
            raise AnalysisError("R13.9: the label map of pre-existing members is no longer filled in _parse_taxon_namespaces")
        for t in tests:
            rep.check(False, "R13.9", ptn.qualname, "label matching decided by the attached-namespace mode", fn_where(ptn, t.stmt), "",
                      "_parse_taxon_namespaces matches <otu> labels against existing members only under `%s`: the file iterator and an attached data set set that attribute, TreeList.get / read and Tree.get pass the caller's namespace through a factory instead, so on those routes every read adds the document's taxa again (4 -> 8 -> 12 taxa for three reads into one namespace) while the other routes re-use them - trees of one source end up on different taxa depending on the route" % norm(t.ast)[:60])
        rep.ob("R13.9", fn_where(ptn), "_parse_taxon_namespaces: %d test(s) on attached_taxon_namespace, label map filled at %d place(s)" % (len(tests), len(fills)), not tests)

    # ---- R13.10 the NTAX guard counts what the statement declares
    with rep.section("R13.10"):
        rep.rule("R13.10", "NEXUS: whether a TAXLABELS statement is refused for declaring more labels than NTAX does not depend on the reading route or on what the namespace held before: the guard neither consults self.attached_taxon_namespace nor compares the size of the whole namespace (a namespace shared across calls already holds other taxa)")
        ptl = index.function("dendropy.dataio.nexusreader.NexusReader._parse_taxlabels_statement")
        g = cfg_of(ptl)
        guards = [t for t in g.nodes if t.kind == "test" and "self._file_specified_ntax" in norm(t.ast) and isinstance(t.ast, ast.Compare)]
        if not guards:
            raise AnalysisError("R13.10: the NTAX guard of _parse_taxlabels_statement was not recognised")
        nsparam = [p_ for p_ in ptl.params if "namespace" in p_]
        for t in guards:
            # the whole condition the raise depends on: the If statement's test
            full = t.stmt.test if isinstance(t.stmt, ast.If) else t.ast
            txt = norm(full)
            route = "attached_taxon_namespace" in txt
            whole = any(isinstance(c, ast.Call) and call_name(c) == "len" and c.args and any(norm(c.args[0]) == p_ or norm(c.args[0]).startswith(p_ + ".") for p_ in nsparam) for c in ast.walk(full))
            rep.check(not route and not whole, "R13.10", ptl.qualname, "NTAX guard depends on %s" % ("the attached-namespace mode" if route else "the size of the whole namespace"), fn_where(ptl, t.stmt), "the NTAX guard counts the labels of the statement",
                      "_parse_taxlabels_statement refuses a label under `%s`: the size of the whole namespace includes taxa that were there before the document, and the test is switched off only in attached mode - TreeList.get / Tree.get with a shared namespace that already holds NTAX or more other taxa raise TooManyTaxaError, the file iterator and DataSet.get read the same source without complaint" % txt[:110])
        rep.floor("R13.10", "NTAX guards in _parse_taxlabels_statement", 1, len(guards))

    # ---- R13.11 the token a reader loop tests is the token it last read
    with rep.section("R13.11"):
        rep.rule("R13.11", "the token a block loop tests is the one it last read: inside a `while <test on token>` loop of the NEXUS/Newick readers no call that advances the tokenizer (next_token*, require_next_token*, skip_to_semicolon) whose result is not bound to `token` reaches the loop test without `token` being re-read - otherwise the END that closes the block (or the next block's BEGIN) is skipped unseen")
        ADV = ("next_token", "next_token_ucase", "require_next_token", "require_next_token_ucase", "skip_to_semicolon")
        nl = na = 0
        for m in ("dendropy.dataio.nexusreader", "dendropy.dataio.nexusyielder", "dendropy.dataio.newickreader", "dendropy.dataio.newickyielder"):
            for fi in index.functions_in_module(m):
                g = cfg_of(fi)
                tests = [t for t in g.nodes if t.kind == "test" and isinstance(t.stmt, ast.While) and any(isinstance(x, ast.Name) and x.id == "token" for x in ast.walk(t.ast))]
                if not tests:
                    continue

                def assigns_token(n):
                    a = n.ast
                    return isinstance(a, ast.Assign) and any(isinstance(x, ast.Name) and x.id == "token" for tg in a.targets for x in ast.walk(tg))
                seen = set()
                for t in tests:
                    nl += 1
                    inner = {id(x) for x in ast.walk(t.stmt)}
                    for n in g.nodes:
                        if n.stmt is None or n.stmt is t.stmt or id(n.stmt) not in inner or assigns_token(n):
                            continue
                        adv = [c for c in node_calls(n) if call_name(c) in ADV and isinstance(c.func, ast.Attribute) and "tokenizer" in norm(c.func.value)]
                        if not adv:
                            continue
                        na += 1
                        w = g.can_reach(n, lambda x: x is t, avoid=assigns_token, follow_exc=False)
                        key = (id(n), t.stmt.lineno)
                        if key in seen:
                            continue
                        seen.add(key)
                        rep.check(w is None, "R13.11", fi.qualname, "loop test on a token that is no longer current (`%s`)" % norm(adv[0])[:60], fn_where(fi, n.ast),
                                  "%s: `%s` is followed by a re-read of token before the loop test" % (fi.name, norm(adv[0])[:50]),
                                  "%s: `%s` advances the tokenizer inside the `while` loop at line %d and the loop test is reached without `token` being read again: the test looks at a token the tokenizer has already moved past, so the END of the block (or whatever followed the statement skipped) goes unseen and the rest of the document is consumed or misparsed"
                                  % (fi.qualname, norm(adv[0])[:60], t.stmt.lineno))
        rep.floor("R13.11", "token-driven reader loops", 8, nl)
        rep.floor("R13.11", "tokenizer advances inside them", 3, na)

    # ---- R13.12 the streaming route refuses the offsets it cannot honour
    with rep.section("R13.12"):
        rep.rule("R13.12", "the streaming route refuses the offsets it cannot honour: TreeArray.read_from_files counts trees as they arrive, so a negative tree_offset ('the last n', which TreeList.get honours by slicing) is refused with an error before any tree is added - the counting comparison `count >= offset` would otherwise be true from the first tree on and silently read everything")
        rf = index.function("dendropy.datamodel.treecollectionmodel.TreeArray.read_from_files")
        g = cfg_of(rf)
        offs = [norm(st.targets[0]) for st in walk_no_nested(rf.node) if isinstance(st, ast.Assign) and isinstance(st.value, ast.Call) and call_name(st.value) in ("pop", "get") and st.value.args and const_value(st.value.args[0], None) == "tree_offset"]
        if len(offs) != 1:
            raise AnalysisError("R13.12: TreeArray.read_from_files no longer takes tree_offset from its keywords")
        off = offs[0]
        adds = [n for n in g.nodes if any(call_name(c) == "add_tree" for c in node_calls(n))]
        if not adds:
            raise AnalysisError("R13.12: TreeArray.read_from_files no longer adds trees through add_tree")

        def neg_allowed(s, l, d):
            # the edge on which `offset < 0` holds (or `offset >= 0` fails) may only lead to a raise
            if s.kind == "test" and isinstance(s.ast, ast.Compare) and len(s.ast.ops) == 1 and norm(s.ast.left) == off and const_value(s.ast.comparators[0], None) == 0:
                op = s.ast.ops[0]
                if isinstance(op, ast.Lt):
                    return l == "t"
                if isinstance(op, ast.GtE):
                    return l == "f"
                return True
            return True
        tests = [s for s in g.nodes if s.kind == "test" and isinstance(s.ast, ast.Compare) and len(s.ast.ops) == 1 and norm(s.ast.left) == off and const_value(s.ast.comparators[0], None) == 0 and isinstance(s.ast.ops[0], (ast.Lt, ast.GtE))]
        ok = False
        for s in tests:
            neg = [d for l, d in s.succ if l == ("t" if isinstance(s.ast.ops[0], ast.Lt) else "f")]
            reach = g.reach(neg, follow_exc=False)
            if not any(a in reach for a in adds) and g.dominated_by(adds[0], lambda n, s=s: n is s):
                ok = True
        rep.check(ok, "R13.12", rf.qualname, "a negative tree_offset reaches the counting loop", fn_where(rf, adds[0].ast), "TreeArray.read_from_files refuses a negative tree_offset",
                  "TreeArray.read_from_files adds a tree whenever `count >= %s` without having refused a negative offset: tree_offset=-2 means 'the last two trees' to TreeList.get / TreeList.read, but here the comparison holds from the first tree on, so the array silently holds ALL trees of the source while the list read with the same options holds two" % off)

    # ---- R13.13 the tree offset is counted per source
    with rep.section("R13.13"):
        rep.rule("R13.13", "the tree offset is counted per source: in TreeArray.read_from_files the number compared with tree_offset is a counter that is set back to 0 whenever the yielder moves on to the next file (an assignment under a test of the yielder's current_file_index), not the running index of the whole stream - TreeList.get applies the offset to each source it reads, so with two sources and tree_offset=k the array would otherwise skip k trees of the first file only")
        rf = index.function("dendropy.datamodel.treecollectionmodel.TreeArray.read_from_files")
        offs = [norm(st.targets[0]) for st in walk_no_nested(rf.node) if isinstance(st, ast.Assign) and isinstance(st.value, ast.Call) and call_name(st.value) in ("pop", "get") and st.value.args and const_value(st.value.args[0], None) == "tree_offset"]
        if len(offs) != 1:
            raise AnalysisError("R13.13: TreeArray.read_from_files no longer takes tree_offset from its keywords")
        off = offs[0]
        cmps = [x for x in ast.walk(rf.node) if isinstance(x, ast.Compare) and len(x.ops) == 1 and isinstance(x.ops[0], (ast.GtE, ast.Gt, ast.Lt, ast.LtE)) and off in (norm(x.left), norm(x.comparators[0])) and not (isinstance(x.comparators[0], ast.Constant) or isinstance(x.left, ast.Constant))]
        if not cmps:
            raise AnalysisError("R13.13: the comparison of a tree count with the offset was not found in TreeArray.read_from_files")
        n13 = 0
        for x in cmps:
            n13 += 1
            cnt = norm(x.left) if norm(x.comparators[0]) == off else norm(x.comparators[0])
            enum_targets = {y.id for lp in walk_no_nested(rf.node) if isinstance(lp, ast.For) and isinstance(lp.iter, ast.Call) and call_name(lp.iter) == "enumerate" for y in ast.walk(lp.target) if isinstance(y, ast.Name)}
            resets = []
            for iff in walk_no_nested(rf.node):
                if isinstance(iff, ast.If) and any(isinstance(y, ast.Attribute) and y.attr == "current_file_index" for y in ast.walk(iff.test)) or (isinstance(iff, ast.If) and any(isinstance(y, ast.Name) and "index" in y.id and y.id not in enum_targets for y in ast.walk(iff.test))):
                    resets += [a for a in ast.walk(iff) if isinstance(a, ast.Assign) and norm(a.targets[0]) == cnt and const_value(a.value, None) == 0]
            ok = cnt not in enum_targets and bool(resets)
            rep.check(ok, "R13.13", rf.qualname, "`%s` compared with the offset is not a per-source count" % cnt, fn_where(rf, x), "read_from_files: `%s` is reset per source" % cnt,
                      "TreeArray.read_from_files compares `%s` with the tree offset, and `%s` is %s: the offset then skips trees of the first source only (two files of three trees with tree_offset=1 give five trees in the array where TreeList.get gives two per file, four in all)" % (cnt, cnt, "the enumerate() index of the whole stream of trees" if cnt in enum_targets else "never set back to 0 when the yielder moves to the next file"))
        rep.floor("R13.13", "comparisons of a tree count with the offset", 1, n13)

    # ---- R13.14 what the character-block routes switch on the tokenizer, they switch off again
    with rep.section("R13.14"):
        rep.rule("R13.14", "what the character-block routes switch on the tokenizer they switch off completely: the mode setters of the NEXUS tokenizer are self-inverse (C09 R09.21) - only the routes that parse character blocks ever capture line ends, so a setter that fails to restore `\\r` makes the data-set and matrix routes disagree with the tree routes, and a string with a path, on CR-LF documents")
        nb = borrow(index, rep, "C09", {"R09.21"}, "R13.14")
        rep.floor("R13.14", "borrowed obligations", 2, nb)

    # ---- R13.15 what one character block's FORMAT set, the next block does not inherit
    with rep.section("R13.15"):
        rep.rule("R13.15", "what one character block's FORMAT statement set, the next block does not inherit: every reader variable that _parse_format_statement (and the NCHAR branch of _parse_dimensions_statement) assigns is given its default again by _parse_characters_data_block before the block's statements are read - otherwise a matrix read on its own differs from the same matrix read as the second block of a data set (an INTERLEAVE, GAP or SYMBOLS setting of the first block is applied to it)")
        XRQ = "dendropy.dataio.nexusreader.NexusReader."
        fmt = index.function(XRQ + "_parse_format_statement")
        dims = index.function(XRQ + "_parse_dimensions_statement")
        blk = index.function(XRQ + "_parse_characters_data_block")
        per_block = {w.attr for w in writes_in(fmt.node) if w.kind == "store" and w.base is not None and norm(w.base) == "self"}
        per_block |= {w.attr for w in writes_in(dims.node) if w.kind == "store" and w.base is not None and norm(w.base) == "self" and "nchar" in w.attr.lower()}
        if len(per_block) < 5:
            raise AnalysisError("R13.15: the variables set by the FORMAT statement were not recognised (%s)" % sorted(per_block))
        g = cfg_of(blk)
        loops = [n for n in g.nodes if n.kind == "test" and isinstance(n.stmt, ast.While)]
        if not loops:
            raise AnalysisError("R13.15: the statement loop of _parse_characters_data_block was not recognised")
        head = loops[0]
        for a in sorted(per_block):
            def resets(n, a=a):
                x = n.ast
                return isinstance(x, ast.Assign) and any(isinstance(t, ast.Attribute) and t.attr == a and norm(t.value) == "self" for t in x.targets)
            # only the paths that actually parse the block (the exclude_chars early return is not one of them)
            ok = g.dominated_by(head, resets, follow_exc=False)
            rep.check(ok, "R13.15", blk.qualname, "`self.%s` carried over from the previous character block" % a, fn_where(blk), "_parse_characters_data_block resets self.%s" % a,
                      "NexusReader._parse_characters_data_block starts reading a block without giving `self.%s` its default again, although the FORMAT / DIMENSIONS statement of an earlier block may have set it: a non-interleaved matrix that follows an interleaved one is read as interleaved (TooManyTaxaError), a block without its own SYMBOLS / GAP / MISSING inherits the previous block's - the matrix in the data set is not the matrix read on its own" % a)
        rep.floor("R13.15", "per-block reader variables", 5, len(per_block))

    # ---- R13.16 a keyword is compared in one case
    with rep.section("R13.16"):
        rep.rule("R13.16", "a block ends on END in any case: NEXUS keywords are case-insensitive and the reader compares them in upper case - in a loop whose own test compares a local with 'END' / 'ENDBLOCK', the body assigns that local from the upper-casing token sources (next_token_ucase, require_next_token_ucase, cast_current_token_to_ucase) or upper-cases it itself; fed from next_token() alone, a block closed with `end;` is not recognised as closed and whatever follows is swallowed - by the routes that SKIP that block only, so the routes stop agreeing")
        UC = ("next_token_ucase", "require_next_token_ucase", "cast_current_token_to_ucase", "upper")
        RAW = ("next_token", "require_next_token")
        n16 = 0
        for f in index.functions_in_module("dendropy.dataio.nexusreader"):
            for loop in [l for l in ast.walk(f.node) if isinstance(l, ast.While)]:
                # the loop's own test decides on END / ENDBLOCK: what the body assigns to that variable is what ends the block
                kwvars = set()
                for x in ast.walk(loop.test):
                    if isinstance(x, ast.Compare) and len(x.ops) == 1 and isinstance(x.left, ast.Name) and isinstance(x.ops[0], (ast.Eq, ast.NotEq, ast.In, ast.NotIn)):
                        consts = [c for c in ast.walk(x.comparators[0]) if isinstance(c, ast.Constant) and isinstance(c.value, str)]
                        if consts and all(c.value in ("END", "ENDBLOCK") for c in consts):
                            kwvars.add(x.left.id)
                if not kwvars:
                    continue
                folded_in_body = any(isinstance(c, ast.Call) and isinstance(c.func, ast.Attribute) and c.func.attr == "upper" and isinstance(c.func.value, ast.Name) and c.func.value.id in kwvars for st in loop.body for c in ast.walk(st))
                for st in loop.body:
                    for a in ast.walk(st):
                        if isinstance(a, ast.Assign) and len(a.targets) == 1 and isinstance(a.targets[0], ast.Name) and a.targets[0].id in kwvars and isinstance(a.value, ast.Call):
                            cn = call_name(a.value)
                            if cn in UC or cn in RAW:
                                n16 += 1
                                rep.check(cn in UC or folded_in_body, "R13.16", f.qualname, "block end tested on a case-preserving token", fn_where(f, a), "%s: `%s` upper-cases what the loop compares with END" % (f.name, norm_stmt(a)[:50]),
                                          "%s assigns `%s` to the variable its loop compares with 'END' / 'ENDBLOCK' and never upper-cases it: `end;` / `End;` no longer ends the block, so a block that is being skipped swallows what follows - DnaCharacterMatrix.get on a lower-case document with a TREES block before the CHARACTERS block skips past the matrix ('No character data in data source') while DataSet.get still finds it" % (f.qualname, norm_stmt(a)[:60]))
        rep.floor("R13.16", "assignments to block-end variables in END-terminated loops", 4, n16)

    # ---- R13.17 what was said before a block does not stick to the next one
    with rep.section("R13.17"):
        rep.rule("R13.17", "what was said before a block does not stick to the next one: in NexusReader._parse_nexus_stream every path from the start of a pass of the block loop to the dispatch of a block parser empties the tokenizer's captured-comment buffer (process_and_clear_comments_for_item / clear_captured_comments / pull_captured_comments) - whatever the annotations target is. The DataSet routes have a target, the TreeList routes have None: clearing only when there is a target leaves the comments between two blocks in the buffer on the tree-list routes, where they end up on the tree list of the next TREES block")
        pns = index.function("dendropy.dataio.nexusreader.NexusReader._parse_nexus_stream")
        g17 = cfg_of(pns)
        disp = [nd for nd in g17.nodes if any((call_name(c) or "").startswith("_parse_") and (call_name(c) or "").endswith("_block") for c in node_calls(nd))]
        outer = [l for l in walk_no_nested(pns.node) if isinstance(l, ast.While)]
        if not disp or not outer:
            raise AnalysisError("R13.17: block loop / block dispatch in _parse_nexus_stream not recognised")
        heads = [nd for nd in g17.nodes if nd.stmt is outer[-1] and nd.kind in ("test", "while", "join", "loop")]
        if not heads:
            heads = [nd for nd in g17.nodes if nd.stmt is outer[-1]]
        CLR = ("process_and_clear_comments_for_item", "clear_captured_comments", "pull_captured_comments")
        did = {id(d) for d in disp}
        ok17, wit = True, None
        for h in heads[:1]:
            w = g17.can_reach(h, lambda nd: id(nd) in did, avoid=lambda nd: any(call_name(c) in CLR for c in node_calls(nd)), follow_exc=False)
            if w is not None:
                ok17, wit = False, w
        rep.check(ok17, "R13.17", pns.qualname, "a block is dispatched with the comment buffer uncleared", fn_where(pns, wit.stmt if wit is not None else None), "_parse_nexus_stream clears the captured comments before every block (%d dispatch sites)" % len(disp),
                  "NexusReader._parse_nexus_stream can reach `%s` on a path that never empties the tokenizer's captured comments: on the routes without a global annotations target (TreeList.get / TreeList.read) a comment or `[&...]` metadata comment written between two blocks stays in the buffer and is attached to the tree list of the next TREES block, while DataSet.get attaches it to the data set - the routes deliver different comments and annotations" % (norm_stmt(wit.stmt)[:50] if wit is not None and wit.stmt is not None else ""))

    # ---- R13.18 files are opened with universal newlines on every route
    with rep.section("R13.18"):
        rep.rule("R13.18", "files are opened with universal newlines on every route: the I/O service and the yielders open path sources in text mode without a `newline=` argument, as the other routes do - with newline='' a CRLF file keeps its `\\r\\n` inside comments and quoted labels on the file-iterator route only, so `Tree.yield_from_files([path])` delivers other comments and labels than `TreeList.get(path=...)`")
        n18 = 0
        for mod in ("dendropy.dataio.ioservice", "dendropy.dataio.newickyielder", "dendropy.dataio.nexusyielder", "dendropy.dataio.nexmlyielder", "dendropy.datamodel.basemodel"):
            if mod not in index.modules:
                continue
            for f in index.functions_in_module(mod):
                for c in calls_in(f.node, nested=True):
                    if isinstance(c.func, ast.Name) and c.func.id == "open" or (isinstance(c.func, ast.Attribute) and c.func.attr == "open" and norm(c.func.value) in ("io", "codecs")):
                        n18 += 1
                        nl = get_kwarg(c, "newline")
                        rep.check(nl is None or is_none(nl), "R13.18", f.qualname, "a source opened with newline=%s" % (norm(nl) if nl is not None else ""), fn_where(f, c), "%s: `%s` uses universal newlines" % (f.name, norm(c)[:50]),
                                  "%s opens its source with `%s`: line ends are then delivered untranslated on this route only - a CRLF file with a line break inside a comment or a quoted label reads as `...\\r\\n...` here and as `...\\n...` by every other route" % (f.qualname, norm(c)[:60]))
        rep.floor("R13.18", "open() calls on the reading routes", 2, n18)
