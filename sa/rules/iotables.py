"""Table extraction shared by C02 / C09: tokenizer configuration, escape
protect classes, NeXML vocabulary."""
import ast
import re

from .common import *  # noqa

try:
    import re._parser as _sre_parse
    import re._constants as _sre_c
except ImportError:  # pragma: no cover (py < 3.11)
    import sre_parse as _sre_parse
    import sre_constants as _sre_c

NP = "dendropy.dataio.nexusprocessing"
ALPHABET = set(chr(c) for c in range(0x20, 0x7f)) | {"\t"}   # the property's label alphabet (ASCII part)


def charclass(pattern):
    """Set of characters matched by a regex that is a single character class."""
    try:
        p = _sre_parse.parse(pattern)
    except Exception as e:
        raise AnalysisError("cannot parse protect regex %r: %s" % (pattern, e))
    if len(p) != 1:
        raise AnalysisError("protect regex %r is not a single character class" % pattern)
    op, av = p[0]
    out = set()
    if op == _sre_c.LITERAL:
        return {chr(av)}
    if op != _sre_c.IN:
        raise AnalysisError("protect regex %r is not a character class" % pattern)
    for o, a in av:
        if o == _sre_c.LITERAL:
            out.add(chr(a))
        elif o == _sre_c.RANGE:
            out |= {chr(c) for c in range(a[0], a[1] + 1)}
        elif o == _sre_c.NEGATE:
            raise AnalysisError("negated protect class %r not supported" % pattern)
        elif o == _sre_c.CATEGORY:
            name = str(a)
            if "SPACE" in name and "NOT" not in name:
                out |= set(" \t\n\r\f\v")
            elif "DIGIT" in name and "NOT" not in name:
                out |= set("0123456789")
            else:
                raise AnalysisError("category %s in protect class not supported" % name)
        else:
            raise AnalysisError("unsupported element %s in protect class %r" % (o, pattern))
    return out


def literal_charset(expr):
    """Evaluate set("...") / set(r'...') / {'a','b'} / "..." statically."""
    if isinstance(expr, ast.Call) and call_name(expr) in ("set", "frozenset") and len(expr.args) == 1 and isinstance(expr.args[0], ast.Constant) and isinstance(expr.args[0].value, str):
        return set(expr.args[0].value)
    if isinstance(expr, ast.Call) and call_name(expr) in ("set", "frozenset") and not expr.args:
        return set()
    if isinstance(expr, ast.Set):
        vals = [const_value(e) for e in expr.elts]
        if all(isinstance(v, str) for v in vals):
            return set("".join(vals)) if all(len(v) == 1 for v in vals) else set(vals)
    if isinstance(expr, ast.Constant) and isinstance(expr.value, str):
        return set(expr.value)
    if isinstance(expr, (ast.List, ast.Tuple)):
        vals = [const_value(e) for e in expr.elts]
        if all(isinstance(v, str) for v in vals):
            return set(vals)
    raise AnalysisError("tokenizer configuration value `%s` is not a literal character set" % norm(expr))


def tokenizer_config(index):
    """Literal configuration NexusTokenizer hands to Tokenizer.__init__."""
    fi = index.function(NP + ".NexusTokenizer.__init__")
    cs = [c for c in calls_in(fi.node) if norm(c.func) == "Tokenizer.__init__"]
    if len(cs) != 1:
        raise AnalysisError("NexusTokenizer.__init__ no longer calls Tokenizer.__init__ exactly once")
    cfgd = {}
    ki = index.klass(NP + ".NexusTokenizer")
    consts = {}
    for st in ki.node.body:
        if isinstance(st, ast.Assign) and len(st.targets) == 1 and isinstance(st.targets[0], ast.Name):
            consts["NexusTokenizer." + st.targets[0].id] = st.value
            consts["self." + st.targets[0].id] = st.value
    for st in index.modules[NP].tree.body:
        if isinstance(st, ast.Assign) and len(st.targets) == 1 and isinstance(st.targets[0], ast.Name):
            consts[st.targets[0].id] = st.value
    for kw in cs[0].keywords:
        if isinstance(kw.value, (ast.Name, ast.Attribute)) and norm(kw.value) in consts:
            # a named constant: the configuration is its defining expression
            kw = ast.keyword(arg=kw.arg, value=consts[norm(kw.value)])
        if kw.arg in ("uncaptured_delimiters", "captured_delimiters", "quote_chars", "comment_begin", "comment_end", "escape_chars"):
            cfgd[kw.arg] = literal_charset(kw.value)
        elif kw.arg in ("escape_quote_by_doubling", "capture_comments"):
            cfgd[kw.arg] = const_value(kw.value)
    for k in ("uncaptured_delimiters", "captured_delimiters", "quote_chars", "comment_begin", "comment_end", "escape_quote_by_doubling"):
        if k not in cfgd:
            raise AnalysisError("NexusTokenizer configuration lacks %s" % k)
    return cfgd, fi, cs[0]


def escape_sites(index):
    """[(function, call, effective protect pattern, is_default)] for every call of escape_nexus_token."""
    esc = index.function(NP + ".escape_nexus_token")
    a = esc.node.args
    defaults = dict(zip([x.arg for x in a.args][-len(a.defaults):], a.defaults)) if a.defaults else {}
    d = defaults.get("protect_regex")
    if not (isinstance(d, ast.Constant) and isinstance(d.value, str)):
        raise AnalysisError("escape_nexus_token default protect_regex is not a string literal")
    out = []
    for fi in list(index.functions.values()):
        for c in calls_in(fi.node, nested=True):
            if call_name(c) != "escape_nexus_token":
                continue
            kw = get_kwarg(c, "protect_regex")
            if kw is None and len(c.args) >= 4:
                kw = c.args[3]
            if kw is None:
                out.append((fi, c, d.value, True))
            elif isinstance(kw, ast.Constant) and isinstance(kw.value, str):
                out.append((fi, c, kw.value, False))
            else:
                raise AnalysisError("%s passes a non-literal protect_regex to escape_nexus_token" % fi.qualname)
    return esc, d.value, out


# ---------------------------------------------------------------- NeXML
_ATTR_RE = re.compile(r"^\s*([A-Za-z_][\w:.-]*)=")
_TAG_RE = re.compile(r"^<?([A-Za-z_][\w:.-]*)$")
XSI_TYPE = "{http://www.w3.org/2001/XMLSchema-instance}type"


def written_vocab(fi):
    """(tags, attrs, attr->value literals) emitted by string constants in a NeXML writer function."""
    tags, attrs, values = set(), set(), {}
    for n in ast.walk(fi.node):
        s = None
        if isinstance(n, ast.Constant) and isinstance(n.value, str):
            s = n.value
        if s is None:
            continue
        for piece in re.split(r"[\s]+", s.strip()):
            m = _ATTR_RE.match(piece)
            if m:
                attrs.add(m.group(1))
                mv = re.match(r'^[\w:.-]+="([^"%{]*)"$', piece)
                if mv:
                    values.setdefault(m.group(1), set()).add(mv.group(1))
        m = re.match(r"^<([A-Za-z_][\w:.-]*)$", s.strip())
        if m:
            tags.add(m.group(1))
        for m in re.finditer(r"<([A-Za-z_][\w:.-]*)[\s>]", s):
            tags.add(m.group(1))
    # bare-word tags: parts.append('otus')
    for c in ast.walk(fi.node):
        if isinstance(c, ast.Call) and call_name(c) == "append" and c.args and isinstance(c.args[0], ast.Constant) and isinstance(c.args[0].value, str):
            m = _TAG_RE.match(c.args[0].value.strip())
            if m and "=" not in c.args[0].value:
                tags.add(m.group(1))
    return tags, attrs, values


def read_attrs(fi):
    """attribute names fetched with <elem>.get('name', ...) in a reader function."""
    out = set()
    for c in calls_in(fi.node, nested=True):
        if isinstance(c.func, ast.Attribute) and c.func.attr == "get" and c.args and isinstance(c.args[0], ast.Constant) and isinstance(c.args[0].value, str):
            v = c.args[0].value
            out.add("xsi:type" if v == XSI_TYPE else v)
        if call_name(c) == "parse_type":
            out.add("xsi:type")
    return out


def reader_tags(index):
    ci = index.klass("dendropy.dataio.nexmlreader.NexmlElement")
    tags = set()
    for m in ci.methods.values():
        for c in calls_in(m.node):
            if call_name(c) and call_name(c).startswith("namespaced_") and c.args and isinstance(c.args[0], ast.Constant):
                tags.add(c.args[0].value)
    return tags
