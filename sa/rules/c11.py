"""C11 Collections keep every member inside their own taxon namespace."""
import ast

from .common import *  # noqa

TCM = "dendropy.datamodel.treecollectionmodel"
TL = TCM + ".TreeList"
TM = "dendropy.datamodel.taxonmodel"
TNA = TM + ".TaxonNamespaceAssociated"
CM = "dendropy.datamodel.charmatrixmodel.CharacterMatrix"
DS = "dendropy.datamodel.datasetmodel.DataSet"
TREE = "dendropy.datamodel.treemodel._tree.Tree"
TREES_EXEMPT = {
    TL + "._parse_and_create_from_stream": "the trees come from lists the reader built under this TreeList's own pseudo-factories (its namespace is handed to the reader)",
    TL + ".__copy__": "shallow copy: shares the very trees of a list over the same namespace",
}


def run(index, rep, tier):
    rep.rule("R11.1", "every tree entering TreeList._trees is bound first: it is the argument/result of a dominating _import_tree_to_taxon_namespace call, or constructed with taxon_namespace=self.taxon_namespace; the import helper migrates or adds on every path where namespaces differ")
    rep.rule("R11.2", "migration is paired and shares its memo: migrate assigns the namespace then reconstructs, forwarding unify_taxa_by_label and the memo; TreeList passes one memo to all trees; DataSet.unify passes one memo to all components")
    rep.rule("R11.3", "CharacterMatrix rows are keyed by members: every store into _taxon_sequence_map is dominated by a membership test, a namespace guard, or uses a taxon just obtained from the namespace; re-keying excludes identity before reporting a collision")
    rep.rule("R11.4", "DataSet binding: new_tree_list/new_char_matrix bind to the attached namespace or raise; read_dataset builds its factory from the attached namespace; add_* compare the component's namespace with the attached one; documented parameters are read")

    # ---- R11.1
    with rep.section("R11.1"):
        nw = 0
        for fi in list(index.functions.values()):
            for w in writes_in(fi.node):
                if w.attr != "_trees":
                    continue
                adding = (w.kind == "mutcall" and w.method in ("append", "insert", "extend")) or w.kind in ("substore", "store", "augstore")
                if not adding:
                    continue
                owner_is_treelist = fi.cls is not None and index.is_subclass(fi.cls, TL)
                if not owner_is_treelist and not (isinstance(w.base, ast.Name) and w.base.id in ("tree_list", "other")):
                    continue
                nw += 1
                if fi.qualname in TREES_EXEMPT:
                    rep.ob("R11.1", fn_where(fi, w.stmt), "%s: `%s` exempt - %s" % (fi.name, norm_stmt(w.stmt)[:50], TREES_EXEMPT[fi.qualname]), True, nontrivial=False)
                    continue
                if w.kind == "mutcall":
                    val = w.call.args[-1] if w.call.args else None
                else:
                    val = w.value
                ok, how = _bound(index, fi, w, val)
                rep.check(ok, "R11.1", fi.qualname, "unbound tree stored: " + norm_stmt(w.stmt)[:80], fn_where(fi, w.stmt), "%s: `%s` stores a tree bound to this list's namespace (%s)" % (fi.name, norm_stmt(w.stmt)[:50], how),
                          "%s puts `%s` into the tree list without first importing it into the list's taxon namespace (no dominating _import_tree_to_taxon_namespace call, not constructed with taxon_namespace=self.taxon_namespace): the list then holds a tree whose namespace and taxa are foreign, which breaks every bipartition-based computation on the list"
                          % (fi.qualname, norm(val)[:60] if val is not None else "?"))
        rep.floor("R11.1", "statements that add to TreeList._trees", 9, nw)
        imp = index.function(TL + "._import_tree_to_taxon_namespace")
        cfg = cfg_of(imp)
        diff = [n for n in cfg.nodes if n.kind == "test" and is_namespace_identity_test(n.ast) is not None]
        rep.check(bool(diff), "R11.1", imp.qualname, "namespace comparison", fn_where(imp), "_import_tree_to_taxon_namespace compares the tree's namespace with the list's",
                  "_import_tree_to_taxon_namespace no longer compares the tree's namespace with the list's")
        if diff:
            def binds(n):
                if any(call_name(c) == "migrate_taxon_namespace" and norm(get_kwarg(c, "taxon_namespace") or (c.args[0] if c.args else ast.Constant(None))) == "self.taxon_namespace" for c in node_calls(n)):
                    return True
                if any(call_name(c) == "update_taxon_namespace" for c in node_calls(n)):
                    return True
                return False
            tstart = [t for lab, t in diff[0].succ if lab == "t"]
            bad = cfg.can_reach(diff[0], lambda n: n is cfg.exit, avoid=binds, follow_exc=False, edge_ok=lambda s, l, d: not (s is diff[0] and l == "f"))
            rep.check(bad is None, "R11.1", imp.qualname, "differing namespace => migrate/add or raise", fn_where(imp), "when namespaces differ every normal path migrates or adds the taxa",
                      "_import_tree_to_taxon_namespace can return normally with the tree still in a foreign namespace")
            adds = [n for n in cfg.nodes if n.kind == "stmt" and isinstance(n.ast, ast.Assign) and norm(n.ast.targets[0]) == "tree._taxon_namespace"]
            for a in adds:
                rep.check(norm(a.ast.value) == "self.taxon_namespace", "R11.1", imp.qualname, norm_stmt(a.ast), fn_where(imp, a.ast), "'add' strategy assigns the list's namespace", "the 'add' strategy assigns `%s`" % norm(a.ast.value))

    # ---- R11.2
    with rep.section("R11.2"):
        mig = index.function(TNA + ".migrate_taxon_namespace")
        cfg = cfg_of(mig)
        asg = [n for n in cfg.nodes if n.kind == "stmt" and isinstance(n.ast, ast.Assign) and norm(n.ast.targets[0]) == "self._taxon_namespace"]
        rec = [n for n in cfg.nodes if any(call_name(c) == "reconstruct_taxon_namespace" for c in node_calls(n))]
        ok = len(asg) == 1 and len(rec) == 1 and norm(asg[0].ast.value) == "taxon_namespace" and cfg.dominated_by(rec[0], lambda n: n is asg[0]) and cfg.must_pass(cfg.entry, lambda n: n is rec[0])[0]
        rep.check(ok, "R11.2", mig.qualname, "assign then reconstruct", fn_where(mig), "migrate assigns the new namespace and then reconstructs on every path",
                  "migrate_taxon_namespace no longer assigns the namespace and then calls reconstruct_taxon_namespace on every path")
        if rec:
            c = [c for c in node_calls(rec[0]) if call_name(c) == "reconstruct_taxon_namespace"][0]
            kw = {k.arg: norm(k.value) for k in c.keywords}
            rep.check(kw.get("unify_taxa_by_label") == "unify_taxa_by_label" and kw.get("taxon_mapping_memo") == "taxon_mapping_memo", "R11.2", mig.qualname, "forwards %s" % kw, fn_where(mig, c),
                      "migrate forwards unify_taxa_by_label and taxon_mapping_memo", "migrate_taxon_namespace calls reconstruct_taxon_namespace with %s: the caller's label-unification choice or shared mapping memo is dropped, so equal labels in different members end up on different taxa" % kw)
        tlr = index.function(TL + ".reconstruct_taxon_namespace")
        loops = [l for l in walk_no_nested(tlr.node) if isinstance(l, ast.For)]
        memo_created_in_loop = any(isinstance(n, ast.Assign) and norm(n.targets[0]) == "taxon_mapping_memo" for l in loops for n in ast.walk(l))
        calls = [c for l in loops for c in ast.walk(l) if isinstance(c, ast.Call) and call_name(c) == "reconstruct_taxon_namespace"]
        ok = bool(calls) and all(norm(get_kwarg(c, "taxon_mapping_memo") or ast.Constant(None)) == "taxon_mapping_memo" and norm(get_kwarg(c, "unify_taxa_by_label") or ast.Constant(None)) == "unify_taxa_by_label" for c in calls) and not memo_created_in_loop
        rep.check(ok, "R11.2", tlr.qualname, "one memo for all trees", fn_where(tlr), "TreeList.reconstruct passes the same memo object to every tree", "TreeList.reconstruct_taxon_namespace does not hand one shared memo to every tree: the same source taxon is mapped to different taxa in different trees")
        binds = [n for l in loops for n in ast.walk(l) if isinstance(n, ast.Assign) and norm(n.targets[0]).endswith("._taxon_namespace")]
        rep.check(bool(binds) and all(norm(b.value) == "self.taxon_namespace" for b in binds), "R11.2", tlr.qualname, "each tree rebound", fn_where(tlr), "each tree is bound to the list's namespace before reconstruction", "TreeList.reconstruct_taxon_namespace no longer binds each tree to the list's namespace")
        un = index.function(DS + ".unify_taxon_namespaces")
        migs = [c for c in calls_in(un.node) if call_name(c) == "migrate_taxon_namespace"]
        memo_names = {norm(get_kwarg(c, "taxon_mapping_memo") or ast.Constant(None)) for c in migs}
        ns_names = {norm(get_kwarg(c, "taxon_namespace") or ast.Constant(None)) for c in migs}
        mname = list(memo_names)[0] if len(memo_names) == 1 else None
        memos = [n for n in walk_no_nested(un.node) if isinstance(n, ast.Assign) and norm(n.targets[0]) == mname]
        in_loop = any(any(m is x for x in ast.walk(l)) for m in memos for l in walk_no_nested(un.node) if isinstance(l, ast.For))
        ok = len(memos) == 1 and not in_loop and len(migs) >= 2 and mname not in (None, "None") and len(ns_names) == 1 and "None" not in ns_names
        rep.check(ok, "R11.2", un.qualname, "one memo for all components", fn_where(un), "DataSet.unify passes one memo and one namespace to every tree list and matrix", "DataSet.unify_taxon_namespaces does not pass one shared memo/namespace to all components")
        for q in (TREE + ".reconstruct_taxon_namespace", CM + ".reconstruct_taxon_namespace"):
            f = index.function(q)
            gets = [c for c in calls_in(f.node) if call_name(c) == "get" and norm(c.func.value) == "taxon_mapping_memo"]
            puts = [w for w in writes_in(f.node) if w.kind == "substore" and w.via_alias is None and norm(w.node.value) == "taxon_mapping_memo"] + \
                   [n for n in walk_no_nested(f.node) if isinstance(n, ast.Assign) and isinstance(n.targets[0], ast.Subscript) and norm(n.targets[0].value) == "taxon_mapping_memo"]
            rep.check(bool(gets) and bool(puts), "R11.2", f.qualname, "memo consulted and filled", fn_where(f), "%s consults the memo before creating/looking up a taxon and records the mapping" % f.name,
                      "%s no longer consults and fills the shared taxon mapping memo" % f.qualname)

    # ---- R11.5 label unification uses one folding
    with rep.section("R11.5 label unification uses one folding"):
        rep.rule("R11.5", "label unification: the cached folded label of a taxon and every folded query use the same folding method (shared with R10.9), so that equal labels end up on one taxon")
        from . import c10
        c10.folding_rule(index, rep, "R11.5")
        nc, caches = c10.derived_cache_rule(index, rep, "R11.5", "dendropy.datamodel.taxonmodel.Taxon")
        rep.floor("R11.5", "stores to a field that feeds a lazily computed cache of Taxon", 1, nc)

    # ---- R11.6
    with rep.section("R11.6"):
        rep.rule("R11.6", "unification reaches every component: DataSet.unify_taxon_namespaces migrates each tree list and each character matrix on every pass of its loops (no component is skipped, not even an empty one - it is filled later)")
        un = index.function("dendropy.datamodel.datasetmodel.DataSet.unify_taxon_namespaces")
        cfg = cfg_of(un)
        nl = 0
        for lp in walk_no_nested(un.node):
            if not (isinstance(lp, ast.For) and norm(lp.iter) in ("self.tree_lists", "self.char_matrices")):
                continue
            nl += 1
            heads = [x for x in cfg.nodes if x.kind == "for" and x.stmt is lp]
            tv = norm(lp.target)
            mig = lambda x, tv=tv: any(call_name(c) in ("migrate_taxon_namespace", "reconstruct_taxon_namespace") and isinstance(c.func, ast.Attribute) and norm(c.func.value) == tv for c in node_calls(x))
            body_first = [d for l, d in heads[0].succ if any(d.stmt is st or any(d.stmt is y for y in ast.walk(st)) for st in lp.body)] if heads else []
            esc = None
            for x in cfg.reach(body_first, avoid=mig, follow_exc=False):
                if x is heads[0] or x is cfg.exit:
                    esc = x
                    break
            rep.check(bool(heads) and bool(body_first) and esc is None, "R11.6", un.qualname, "a component of %s can be skipped" % norm(lp.iter), fn_where(un, lp), "every item of %s is migrated" % norm(lp.iter),
                      "DataSet.unify_taxon_namespaces has a path through its loop over %s that does not migrate the component: that tree list / matrix keeps its private namespace (which is no longer even listed in the data set), so trees or sequences put into it later are outside the unified namespace and equal labels end up on different taxa" % norm(lp.iter))
        rep.floor("R11.6", "component loops in unify_taxon_namespaces", 2, nl)

    # ---- R11.3
    with rep.section("R11.3"):
        ns = 0
        for fi in index.methods_of(CM):
            cfg = None
            for w in writes_in(fi.node):
                if w.attr != "_taxon_sequence_map" or w.kind != "substore" or not (isinstance(w.base, ast.Name) and w.base.id == "self"):
                    continue
                ns += 1
                cfg = cfg or cfg_of(fi)
                key = norm(w.node.slice)
                wn = stmt_nodes(cfg, w.stmt)[0]
                guards = {g.id for g, _ in find_namespace_guards(cfg)}

                def member_test(n, key=key):
                    if n.kind != "test":
                        return False
                    cp = compare_parts(n.ast)
                    return bool(cp) and cp[1] in ("NotIn", "In") and norm(cp[0]) == key and "taxon_namespace" in norm(cp[2])
                # flow-sensitive: every definition of the key that can reach the store (without being overwritten) either takes the
                # taxon from the namespace (require_taxon / new_taxon) or is followed, on every path to the store, by add_taxon(key)
                def is_def(n, key=key):
                    return n.kind == "stmt" and isinstance(n.ast, ast.Assign) and any(norm(t) == key for t in n.ast.targets)

                def binds(n, key=key):
                    return any(call_name(c) == "add_taxon" and c.args and norm(c.args[0]) == key and "taxon_namespace" in norm(c.func) for c in node_calls(n)) or member_test(n)
                defs = [d for d in cfg.nodes if is_def(d)]
                from_ns = bool(defs)
                for d in defs:
                    if cfg.can_reach(d, lambda x: x is wn, avoid=is_def, follow_exc=False) is None:
                        continue        # overwritten before the store
                    v = d.ast.value
                    if isinstance(v, ast.Call) and call_name(v) in ("require_taxon", "new_taxon") and "taxon_namespace" in norm(v.func):
                        continue
                    if cfg.can_reach(d, lambda x: x is wn, avoid=lambda x: is_def(x) or binds(x), follow_exc=False) is not None:
                        from_ns = False
                ok = cfg.dominated_by(wn, member_test) or (bool(guards) and cfg.dominated_by(wn, lambda n: n.id in guards)) or from_ns
                how = "membership test" if cfg.dominated_by(wn, member_test) else ("namespace guard on the source matrix" if guards else ("taxon obtained from the namespace" if from_ns else "?"))
                rep.check(ok, "R11.3", fi.qualname, "row keyed by unchecked taxon: " + norm_stmt(w.stmt)[:70], fn_where(fi, w.stmt), "%s: row store `%s` keyed by a member (%s)" % (fi.name, norm_stmt(w.stmt)[:40], how),
                          "%s stores a row under `%s` without a dominating test that the taxon belongs to the matrix's namespace (no `in self.taxon_namespace` test, no namespace guard, not obtained from require_taxon/new_taxon)" % (fi.qualname, key))
        rep.floor("R11.3", "row stores in CharacterMatrix", 8, ns)
        # re-keying excludes identity
        rk = index.function(CM + ".reconstruct_taxon_namespace")
        cfg = cfg_of(rk)
        coll = [n for n in cfg.nodes if n.kind == "test" and isinstance(n.ast, ast.Compare) and type(n.ast.ops[0]).__name__ == "In" and norm(n.ast.comparators[0]) == "self._taxon_sequence_map"
                and raises_in_branch(cfg, n, "t") is not None]
        if not coll:
            raise AnalysisError("R11.3: collision test in CharacterMatrix.reconstruct_taxon_namespace not recognised")
        for c in coll:
            newk = norm(c.ast.left)

            def ident(n, newk=newk):
                cp = compare_parts(n.ast) if n.kind == "test" else None
                return bool(cp) and cp[1] in ("Is", "IsNot", "Eq", "NotEq") and newk in (norm(cp[0]), norm(cp[2])) and "original" in norm(cp[0]) + norm(cp[2])
            ok = cfg.dominated_by(c, ident)
            rep.check(ok, "R11.3", rk.qualname, "collision test `%s` not guarded by identity" % norm(c.ast), fn_where(rk, c.stmt), "re-keying reports a collision only for a DIFFERENT taxon already holding a row",
                      "CharacterMatrix.reconstruct_taxon_namespace raises 'Multiple sequences' when `%s`, without first excluding the case that the mapped taxon IS the original one: reconstructing a matrix whose taxa are already members of its namespace fails although nothing collides" % norm(c.ast))

    # ---- R11.4
    with rep.section("R11.4"):
        for name in ("new_tree_list", "new_char_matrix"):
            f = index.function(DS + "." + name)
            cfg = cfg_of(f)
            sets = [n for n in cfg.nodes if n.kind == "stmt" and isinstance(n.ast, ast.Assign) and norm(n.ast.targets[0]) == "kwargs['taxon_namespace']"]
            ok = bool(sets) and all(norm(s_.ast.value) == "self.attached_taxon_namespace" for s_ in sets)
            # with an attached namespace: every normal path passes the override (or raises)
            attached = [n for n in cfg.nodes if n.kind == "test" and norm(n.ast) == "self.attached_taxon_namespace is not None"]
            if ok and attached:
                ids = {s_.id for s_ in sets}
                w = cfg.can_reach(attached[0], lambda n: n is cfg.exit, avoid=lambda n: n.id in ids, follow_exc=False, edge_ok=lambda s_, l, d: not (s_ is attached[0] and l == "f"))
                ok = w is None
            rep.check(ok and bool(attached), "R11.4", f.qualname, "attached namespace overrides the keyword", fn_where(f), "%s binds the new component to the attached namespace or raises on conflict" % name,
                      "%s can create a component over a namespace other than the data set's attached one: with a namespace attached every component must be bound to it" % f.qualname)
        rd = index.function("dendropy.dataio.ioservice.DataReader.read_dataset")
        rcall = [c for c in calls_in(rd.node) if call_name(c) == "_read"]
        fvar = norm(get_kwarg(rcall[0], "taxon_namespace_factory")) if rcall and get_kwarg(rcall[0], "taxon_namespace_factory") is not None else "taxon_namespace_factory"
        lam = [n for n in walk_no_nested(rd.node) if isinstance(n, ast.Assign) and norm(n.targets[0]) == fvar and isinstance(n.value, ast.Lambda)]
        ok = any(norm(l.value.body) == "dataset.attached_taxon_namespace" for l in lam) and any(norm(l.value.body) == "taxon_namespace" for l in lam)
        rep.check(ok, "R11.4", rd.qualname, "factory from attached namespace", fn_where(rd), "read_dataset hands the reader the attached (or given) namespace as its only namespace factory", "read_dataset no longer builds its namespace factory from the attached/given namespace")
        for name in ("add_tree_list", "add_char_matrix"):
            f = index.function(DS + "." + name)
            compares = [n for n in walk_no_nested(f.node) if isinstance(n, ast.Compare) and "attached_taxon_namespace" in norm(n)]
            rep.check(bool(compares), "R11.4", f.qualname, "no comparison with attached namespace", fn_where(f), "%s compares the component's namespace with the attached one" % name,
                      "%s inserts a component without comparing its namespace with attached_taxon_namespace: in attached mode the data set then holds a component bound to a foreign namespace" % f.qualname)
        un_params = unused_params(un)
        for p in [x for x in un.all_params if x != "self"]:
            rep.check(p not in un_params, "R11.4", un.qualname, "parameter %s never read" % p, fn_where(un), "unify_taxon_namespaces reads its `%s` parameter" % p,
                      "DataSet.unify_taxon_namespaces accepts `%s` but never reads it: labels are unified the same way whatever the caller asks" % p)

    # ---- R11.7 what is imported is what is stored
    with rep.section("R11.7"):
        rep.rule("R11.7", "what is imported is what is stored: the TreeList operations that take several trees (slice assignment, extend, +=, insert of a sequence) walk their argument at most once, or materialise it first - a generator must not be consumed by the import loop and then stored empty")
        fam = [f for f in index.functions_in_module("dendropy.datamodel.treecollectionmodel") if f.cls is not None and f.cls.name == "TreeList" and f.name in ("__setitem__", "extend", "__iadd__", "__add__")]
        rep.floor("R11.7", "multi-tree arguments of TreeList", 3, one_pass_iterable_rule(index, rep, "R11.7", fam, ("value", "other", "trees")))

    # ---- R11.8 copies into another namespace match taxa by label
    with rep.section("R11.8"):
        rep.rule("R11.8", "a copy drawn into another namespace finds its taxa there by label, creating one only when the label is new (C12 R12.2: the clone paths map every source taxon through require_taxon(label) or to itself) - so a tree or list built from trees over another namespace never ends up with two taxa for one label")
        nb = borrow(index, rep, "C12", {"R12.2"}, "R11.8")
        rep.floor("R11.8", "borrowed obligations", 4, nb)

    # ---- R11.9 a list can be extended by itself
    with rep.section("R11.9"):
        rep.rule("R11.9", "a collection can be extended by itself: a method of TreeList that iterates directly over a parameter and grows the receiver inside that loop (`self._trees.append`, `self.append`, `self.insert`) walks a snapshot of the parameter (list(...)) - the parameter may be the receiver (`tl.extend(tl)`, `tl += tl`), and a list that grows while it is walked never ends")
        n9 = 0
        for fi in index.methods_of(TL):
            for lp in walk_no_nested(fi.node):
                if not (isinstance(lp, ast.For) and isinstance(lp.iter, ast.Name) and lp.iter.id in fi.params and lp.iter.id != "self"):
                    continue
                grows = [c for st in lp.body for c in ast.walk(st) if isinstance(c, ast.Call) and isinstance(c.func, ast.Attribute) and ((norm(c.func.value) == "self._trees" and c.func.attr in ("append", "insert", "extend")) or (norm(c.func.value) == "self" and c.func.attr in ("append", "insert", "extend", "add_tree")))]
                if not grows:
                    continue
                n9 += 1
                rep.check(False, "R11.9", fi.qualname, "`%s` walked while the receiver grows" % lp.iter.id, fn_where(fi, lp), "",
                          "%s iterates `for ... in %s` and adds to the receiver inside the loop: when the argument is the receiver itself - tl.extend(tl), tl += tl - every tree appended is visited again and the call never returns; walk list(%s) instead" % (fi.qualname, lp.iter.id, lp.iter.id))
            for lp in walk_no_nested(fi.node):
                if isinstance(lp, ast.For) and isinstance(lp.iter, ast.Call) and call_name(lp.iter) in ("list", "tuple") and lp.iter.args and isinstance(lp.iter.args[0], ast.Name) and lp.iter.args[0].id in fi.params:
                    n9 += 1
                    rep.ob("R11.9", fn_where(fi, lp), "%s walks a snapshot of `%s`" % (fi.name, lp.iter.args[0].id), True)
        rep.floor("R11.9", "loops over a parameter in TreeList methods", 0, n9)

    # ---- R11.10 an ordered set keeps its list and its set in step
    with rep.section("R11.10"):
        rep.rule("R11.10", "an ordered set keeps its list and its set in step: the containers a DataSet holds its components in (utility.container.OrderedSet) take the SAME element out of the hash set and out of the list - the set finds it by hash (identity, for tree lists and matrices), `list.remove(x)` by equality (content), so where both are used the list side first looks for the identical object (`is`) - otherwise removing one of two equal-looking components removes one from the set and the other from the list")
        oc = index.klass("dendropy.utility.container.OrderedSet")
        n10 = 0
        for name in ("remove", "discard"):
            f = oc.methods.get(name)
            if f is None:
                raise AnalysisError("R11.10: OrderedSet.%s vanished" % name)
            n10 += 1
            p_ = [x for x in f.params if x != "self"][0]
            closure = [f]
            for c in calls_in(f.node):
                if isinstance(c.func, ast.Attribute) and norm(c.func.value) == "self" and c.func.attr in oc.methods:
                    closure.append(oc.methods[c.func.attr])
            by_eq = [c for g_ in closure for c in calls_in(g_.node) if isinstance(c.func, ast.Attribute) and c.func.attr == "remove" and norm(c.func.value) == "self._item_list"]
            by_id = [x for g_ in closure for x in ast.walk(g_.node) if isinstance(x, ast.Compare) and len(x.ops) == 1 and isinstance(x.ops[0], (ast.Is, ast.IsNot)) and not is_none(x.comparators[0])]
            set_side = [c for g_ in closure for c in calls_in(g_.node) if isinstance(c.func, ast.Attribute) and c.func.attr in ("remove", "discard") and norm(c.func.value) == "self._item_set"]
            ok = not (by_eq and set_side) or bool(by_id)
            rep.check(ok, "R11.10", f.qualname, "the list side removes by equality only", fn_where(f, by_eq[0] if by_eq else None), "OrderedSet.%s removes the identical element from both sides" % name,
                      "OrderedSet.%s takes `%s` out of the hash set (found by hash: identity for TreeList / CharacterMatrix) and then calls `self._item_list.remove(%s)`, which takes out the FIRST element that compares equal: with two empty tree lists over one namespace in a data set, ds.tree_lists.remove(b) leaves b in the list and a in the set - iteration yields b while `a in ds.tree_lists` is True" % (name, p_, p_))
        rep.floor("R11.10", "removal methods of OrderedSet", 2, n10)

    # ---- R11.11 equal labels mean one member by every route
    with rep.section("R11.11"):
        rep.rule("R11.11", "equal labels mean one member by every route (C10 R10.16): no library function resolves labels through TaxonNamespace.label_taxon_map() - a last-wins snapshot - and the reader's symbol mapper fills its table first-wins; otherwise reading and appending/migrating bind one label to different Taxon objects of the same namespace, or a copy creates one taxon per occurrence of a label")
        nb = borrow(index, rep, "C10", {"R10.16"}, "R11.11")
        rep.floor("R11.11", "borrowed obligations", 1, nb)

    # ---- R11.12 a taxon the symbol mapper is told about can be found by its label
    with rep.section("R11.12"):
        rep.rule("R11.12", "a taxon the symbol mapper is told about can be found by its label: every method of NexusTaxonSymbolMapper that takes a `taxon` and files it under a token or a number also files it in label_taxon_map (unless the label is there already). The TRANSLATE statement of a file without TAXA block creates its taxa through the namespace, behind the mapper's back; a later tree that spells the labels out must find those taxa, not create a second set with the same labels")
        msm = index.klass("dendropy.dataio.nexusprocessing.NexusTaxonSymbolMapper")
        n12 = 0
        for mname, mf in sorted(msm.methods.items()):
            if "taxon" not in mf.params:
                continue
            ws = [w for w in writes_in(mf.node) if w.kind == "substore" and w.attr in ("token_taxon_map", "number_taxon_map", "label_taxon_map")]
            if not any(w.attr != "label_taxon_map" for w in ws):
                continue
            n12 += 1
            bylabel = [w for w in ws if w.attr == "label_taxon_map"]
            rep.check(bool(bylabel), "R11.12", mf.qualname, "taxon filed without its label", fn_where(mf), "%s files the taxon by label too" % mname,
                      "NexusTaxonSymbolMapper.%s files the taxon under %s but not in label_taxon_map: a taxon created by TRANSLATE in a file without TAXA block is then unknown to the mapper by label, and a later tree of the same block that spells the labels out (`tree t2 = (a,(b,c));` after `translate 1 a, 2 b, 3 c;`) gets NEW taxa - the namespace reads a,b,c,a,b,c and the two trees share no taxon" % (mname, " / ".join(sorted({w.attr for w in ws}))))
        rep.floor("R11.12", "mapper methods that file a taxon", 2, n12)

    # ---- R11.13 copying a matrix into another namespace merges no rows
    with rep.section("R11.13"):
        rep.rule("R11.13", "copying a matrix into another namespace merges no rows: the loop of CharacterMatrix._clone_from that maps the source's taxa to taxa of the target namespace (by label) refuses - a raise inside the loop - when two taxa that carry rows land on one target taxon; the rows are then copied as a dict keyed by the mapped taxa, where the second row would silently replace the first (the migrate_taxon_namespace route raises TaxonNamespaceReconstructionError for the same input)")
        cf = index.function("dendropy.datamodel.charmatrixmodel.CharacterMatrix._clone_from")
        floops = [l for l in walk_no_nested(cf.node) if isinstance(l, ast.For) and any(call_name(c) == "require_taxon" for c in calls_in(l))]
        if len(floops) != 1:
            raise AnalysisError("R11.13: the label-mapping loop of CharacterMatrix._clone_from not recognised")
        raises_ = [x for x in ast.walk(floops[0]) if isinstance(x, ast.Raise)]
        guarded = [r_ for r_ in raises_ if any(isinstance(i, ast.If) and any(r_ is y for y in ast.walk(i)) and any(isinstance(c, ast.Compare) and isinstance(c.ops[0], (ast.In, ast.NotIn, ast.Is, ast.IsNot)) for c in ast.walk(i.test)) for i in ast.walk(floops[0]))]
        rep.check(bool(guarded), "R11.13", cf.qualname, "two rows landing on one taxon are merged silently", fn_where(cf, floops[0]), "_clone_from refuses two row-carrying taxa that map to one target taxon",
                  "CharacterMatrix._clone_from maps every source taxon to `require_taxon(label=...)` of the target namespace and never notices two of them landing on the same taxon: the deep copy then writes both rows under one key, so `DnaCharacterMatrix(cm, taxon_namespace=TaxonNamespace())` of a case-sensitive source holding 'a' and 'A' returns ONE row - the data of 'A' under taxon 'a' - without any error")


def _bound(index, fi, w, val):
    """is the stored value bound to self.taxon_namespace on every path?"""
    if val is None:
        return False, "?"
    if isinstance(val, (ast.List, ast.Tuple)) and not val.elts:
        return True, "empty list"
    cfg = cfg_of(fi)
    wn = stmt_nodes(cfg, w.stmt)
    if not wn:
        return True, "dead code"
    wn = wn[0]
    vt = norm(val)
    # (a) result of the import helper
    if isinstance(val, ast.Call) and call_name(val) == "_import_tree_to_taxon_namespace":
        return True, "result of the import helper"
    # (b) dominated by an import of this very value

    def imports(n, vt=vt):
        for c in node_calls(n):
            if call_name(c) == "_import_tree_to_taxon_namespace":
                a = get_kwarg(c, "tree") or (c.args[0] if c.args else None)
                if a is not None and norm(a) == vt:
                    return True
        return False
    if cfg.dominated_by(wn, imports):
        return True, "dominating import of " + vt
    # (c) constructed with the list's namespace
    if isinstance(val, ast.Name):
        defs = [d for d in walk_no_nested(fi.node) if isinstance(d, ast.Assign) and norm(d.targets[0]) == val.id]
        # `x = list(x)` only materialises what x was: neither a binder nor a new, unbound value
        defs = [d for d in defs if not (isinstance(d.value, ast.Call) and isinstance(d.value.func, ast.Name) and d.value.func.id in ("list", "tuple") and len(d.value.args) == 1 and norm(d.value.args[0]) == val.id)]
        oks = []
        if defs:
            for d in defs:
                v = d.value
                if isinstance(v, ast.Call) and norm(v.func) in ("self.tree_type", "self.tree_factory", "self.__class__.tree_type"):
                    kw = get_kwarg(v, "taxon_namespace")
                    if kw is not None and norm(kw) == "self.taxon_namespace":
                        oks.append(True)
                        continue
                    if has_star_kwargs(v):
                        sets = [n for n in cfg.nodes if n.kind == "stmt" and isinstance(n.ast, ast.Assign) and norm(n.ast.targets[0]) == "kwargs['taxon_namespace']" and norm(n.ast.value) == "self.taxon_namespace"]
                        dn = stmt_nodes(cfg, d)[0]
                        ids = {s_.id for s_ in sets}
                        oks.append(bool(sets) and cfg.dominated_by(dn, lambda n: n.id in ids))
                        continue
                # a list of such trees
                if isinstance(v, ast.Name):
                    inner = [x for x in walk_no_nested(fi.node) if isinstance(x, ast.Call) and call_name(x) == "append" and norm(x.func.value) == v.id]
                    oks.append(bool(inner) and all(_bound_value_expr(fi, x.args[0]) for x in inner))
                    continue
                oks.append(False)
        good_defs = [d for d, o in zip(defs, oks)] if defs and all(oks) else []
        # (d) every element imported in a loop: for t in value: import(t)
        loops = [l for l in walk_no_nested(fi.node) if isinstance(l, ast.For) and norm(l.iter) == val.id
                 and any(isinstance(c, ast.Call) and call_name(c) == "_import_tree_to_taxon_namespace" and c.args and norm(c.args[0]) == norm(l.target) for c in ast.walk(l))]
        # the binding definitions / import loops must cover every path to the store
        binders = set()
        for d in good_defs:
            binders |= {n.id for n in stmt_nodes(cfg, d)}
        for l in loops:
            binders |= {n.id for n in cfg.nodes if n.kind == "for" and n.ast is l}
        if binders and cfg.dominated_by(wn, lambda n: n.id in binders):
            return True, "constructed over / imported into self.taxon_namespace on every path"
    return False, "?"


def _bound_value_expr(fi, e):
    if isinstance(e, ast.Name):
        defs = [d for d in ast.walk(fi.node) if isinstance(d, ast.Assign) and norm(d.targets[0]) == e.id]
        return bool(defs) and all(isinstance(d.value, ast.Call) and norm(d.value.func) in ("self.tree_type", "self.tree_factory") and get_kwarg(d.value, "taxon_namespace") is not None
                                  and norm(get_kwarg(d.value, "taxon_namespace")) == "self.taxon_namespace" for d in defs)
    return False
