"""C19 Character-matrix row/column operations select exactly what they name; terminate."""
import ast

from .common import *  # noqa

MOD = "dendropy.datamodel.charmatrixmodel"
CM = MOD + ".CharacterMatrix"
SEQ = MOD + ".CharacterDataSequence"
ROW_OPS = ["add_sequences", "replace_sequences", "update_sequences", "extend_sequences", "extend_matrix"]
CELL_LISTS = ("_character_values", "_character_types", "_character_annotations")


def loop_invariant_whiles(fi):
    """`while` loops whose condition cannot change: no name of the condition is
    (re)bound or possibly mutated in the body, the condition calls nothing, and
    the body has no break/return/raise that leaves the loop."""
    out = []
    all_loops = []
    for w in walk_no_nested(fi.node):
        if not isinstance(w, ast.While):
            continue
        all_loops.append(w)
        test = w.test
        if isinstance(test, ast.Constant):
            cond_names = set()
            const_true = bool(test.value)
        else:
            cond_names = names_in(test)
            const_true = False
        cond_calls = any(isinstance(n, ast.Call) for n in ast.walk(test))
        assigned, touched, exits = set(), set(), False
        for s in w.body:
            for n in walk_no_nested(s):
                if isinstance(n, ast.Name) and isinstance(n.ctx, (ast.Store, ast.Del)):
                    assigned.add(n.id)
                elif isinstance(n, ast.Call):
                    if isinstance(n.func, ast.Attribute):
                        ch = attr_chain(n.func.value)
                        if ch:
                            touched.add(ch[0])
                        else:
                            touched |= names_in(n.func.value)
                    for a in list(n.args) + [k.value for k in n.keywords]:
                        touched |= names_in(a)
                elif isinstance(n, (ast.Attribute, ast.Subscript)) and isinstance(n.ctx, (ast.Store, ast.Del)):
                    ch = attr_chain(n.value) if not isinstance(n.value, ast.Subscript) else None
                    if ch:
                        touched.add(ch[0])
                    else:
                        touched |= names_in(n.value)
                elif isinstance(n, (ast.Return, ast.Raise)):
                    exits = True
                elif isinstance(n, ast.Yield):
                    exits = True  # generator: consumer may stop
            # break belonging to this loop (not to an inner loop)
            exits = exits or _has_own_break(s)
        progress = bool(cond_names & (assigned | touched)) or cond_calls
        if const_true:
            progress = False
        ok = progress or exits
        out.append((w, ok, cond_names, assigned))
    return out


def _has_own_break(stmt):
    if isinstance(stmt, ast.Break):
        return True
    if isinstance(stmt, (ast.For, ast.While, ast.AsyncFor)):
        # breaks inside belong to the inner loop, except in its else clause
        return any(_has_own_break(s) for s in stmt.orelse)
    if isinstance(stmt, (ast.FunctionDef, ast.AsyncFunctionDef, ast.ClassDef)):
        return False
    for f in ("body", "orelse", "finalbody"):
        for s in getattr(stmt, f, []) or []:
            if isinstance(s, ast.stmt) and _has_own_break(s):
                return True
    for h in getattr(stmt, "handlers", []) or []:
        for s in h.body:
            if _has_own_break(s):
                return True
    return False


def dict_mutated_while_iterated(fi):
    """for-loops iterating a container (directly or via .keys/.items/.values)
    whose body adds/deletes keys of that same container."""
    out = []
    for f in walk_no_nested(fi.node):
        if not isinstance(f, ast.For):
            continue
        it = f.iter
        if isinstance(it, ast.Call) and isinstance(it.func, ast.Attribute) and it.func.attr in ("keys", "items", "values") and not it.args:
            it = it.func.value
        if isinstance(it, ast.Call):
            continue  # list(...)/tuple(...)/sorted(...) copy, or other call
        txt = norm(it)
        if not isinstance(it, (ast.Name, ast.Attribute)):
            continue
        bad = None
        for s in f.body:
            for n in walk_no_nested(s):
                if isinstance(n, ast.Delete):
                    for t in n.targets:
                        if isinstance(t, ast.Subscript) and norm(t.value) == txt:
                            bad = n
                elif isinstance(n, ast.Call) and isinstance(n.func, ast.Attribute) and norm(n.func.value) == txt \
                        and n.func.attr in ("pop", "remove", "clear", "popitem", "__delitem__", "discard", "insert", "append", "add"):
                    bad = n
        out.append((f, txt, bad))
    return out


def run(index, rep, tier):
    rep.rule("R19.1", "no loop-invariant `while`: the condition of every while loop in charmatrixmodel can be changed by its body, or the body can leave the loop")
    rep.rule("R19.2", "each row operation tests namespace identity against its argument and raises before the first write to the row store")
    rep.rule("R19.3", "row operations never store to / call a mutator on anything derived from the argument matrix, and every row taken from the argument is wrapped in a fresh character_sequence_type(...)")
    rep.rule("R19.4", "CharacterDataSequence: every length-changing mutation of one of the three parallel cell lists is matched on the other two on every path")
    rep.rule("R19.5", "export_character_indices deletes, high index to low, exactly the cells whose index is not in the requested set")
    rep.rule("R19.6", "concatenate: the recorded subset is range(pos, pos+width) and pos advances by the same width")
    rep.rule("R19.7", "no row-store container is resized while it is being iterated directly")
    mod = index.module(MOD)
    cm = index.klass(CM)

    # ---- R19.1
    with rep.section("R19.1"):
        nloops = 0
        for fi in index.functions_in_module(MOD):
            for w, ok, cond_names, assigned in loop_invariant_whiles(fi):
                nloops += 1
                rep.check(ok, "R19.1", fi.qualname, norm_stmt(w), fn_where(fi, w),
                          "while-loop `%s` in %s" % (norm(w.test), fi.qualname),
                          "loop condition `%s` mentions %s, none of which the body assigns or can mutate (it assigns %s) and the body has no break/return/raise: once entered the loop never ends"
                          % (norm(w.test), sorted(cond_names), sorted(assigned)))
        rep.floor("R19.1", "while loops in charmatrixmodel", 3, nloops)

    # ---- R19.2 / R19.3
    with rep.section("R19.2 / R19.3"):
        n_ops = 0
        for name in ROW_OPS:
            fi = index.function(CM + "." + name)
            n_ops += 1
            cfg = cfg_of(fi)
            arg = [p for p in fi.params if p != "self"][0]
            guards = [(n, r) for n, r in find_namespace_guards(cfg) if {r[0], r[1]} == {"self", arg}]
            wnodes = []
            for w in writes_in(fi.node):
                if w.attr == "_taxon_sequence_map":
                    wnodes.extend(stmt_nodes(cfg, w.stmt))
            gids = {g.id for g, _ in guards}
            ok = bool(guards) and all(cfg.dominated_by(wn, lambda n: n.id in gids) for wn in wnodes)
            rep.check(ok, "R19.2", fi.qualname, "namespace identity guard", fn_where(fi),
                      "%s: `%s.taxon_namespace is not self.taxon_namespace` -> raise dominates %d row-store writes" % (name, arg, len(wnodes)),
                      "%s writes the row store without first refusing a matrix over a different namespace" % fi.qualname)
            _r19_3(rep, fi, [arg])
        fi = index.function(CM + ".concatenate")
        cfg = cfg_of(fi)
        guards = find_namespace_guards(cfg)
        ext = [n for n in cfg.nodes if any(call_name(c) == "extend_matrix" for c in node_calls(n))]
        gids = {g.id for g, _ in guards}
        ok = bool(guards) and bool(ext) and all(cfg.dominated_by(e, lambda n: n.id in gids) for e in ext)
        rep.check(ok, "R19.2", fi.qualname, "namespace identity guard", fn_where(fi),
                  "concatenate: per-matrix namespace test dominates extend_matrix(cm)",
                  "concatenate extends with a matrix whose namespace was not compared with the first matrix's")
        _r19_3(rep, fi, ["char_matrices"])
        rep.floor("R19.2", "row operations", 5, n_ops)

    # ---- R19.4
    with rep.section("R19.4"):
        nops = 0
        for fi in index.methods_of(SEQ):
            nops += parallel_lists_rule(rep, "R19.4", fi, CELL_LISTS)
        rep.floor("R19.4", "length-changing operations on the cell lists", 9, nops)

    # ---- R19.5
    with rep.section("R19.5"):
        fi = index.function(CM + ".export_character_indices")
        dels = []
        for f in walk_no_nested(fi.node):
            if isinstance(f, ast.For):
                for n in ast.walk(f):
                    if isinstance(n, ast.Delete) and any(isinstance(t, ast.Subscript) for t in n.targets):
                        dels.append((f, n))
        inner = {}
        for f, d in dels:
            inner[d] = f  # innermost loop wins because walk is outer-first
        if not inner:
            raise AnalysisError("R19.5: export_character_indices no longer deletes cells in a loop; shape not recognised")
        pm = {}
        for p in ast.walk(fi.node):
            for c in ast.iter_child_nodes(p):
                pm[c] = p
        for d, f in inner.items():
            it = f.iter
            descending = False
            if isinstance(it, ast.Call) and call_name(it) == "range" and len(it.args) == 3:
                st = it.args[2]
                descending = isinstance(st, ast.UnaryOp) and isinstance(st.op, ast.USub)
            if isinstance(it, ast.Call) and call_name(it) == "reversed":
                descending = True
            rep.check(descending, "R19.5", fi.qualname, "deletion loop order: " + norm(it), fn_where(fi, f),
                      "cells are deleted while iterating `%s` (must run from the high end)" % norm(it),
                      "cells are deleted from a sequence while its indices are iterated in ascending order; later indices shift and the wrong columns survive")
            # guard polarity, on the CFG: the deletion runs only where the loop index is NOT in the requested set
            cfg = cfg_of(fi)
            loopvar = norm(f.target)
            sub = [t for t in d.targets if isinstance(t, ast.Subscript)][0]
            dn = stmt_nodes(cfg, d)
            tests = [t for t in cfg.nodes if t.kind == "test" and isinstance(t.ast, ast.Compare) and len(t.ast.ops) == 1 and isinstance(t.ast.ops[0], (ast.In, ast.NotIn))
                     and norm(t.ast.left) == loopvar]
            ok = False
            why = "deletion is not guarded by a membership test on the requested index set"
            gtxt = "<none>"
            if dn and tests and norm(sub.slice) == loopvar:
                gtxt = norm(tests[0].ast)
                keep_edges = {(t.id, "f" if isinstance(t.ast.ops[0], ast.NotIn) else "t") for t in tests}      # index IS requested
                drop_edges = {(t.id, "t" if isinstance(t.ast.ops[0], ast.NotIn) else "f") for t in tests}      # index is NOT requested
                reach_wo_drop = cfg.reach([cfg.entry], follow_exc=False, edge_ok=lambda s_, l, d_: (s_.id, l) not in drop_edges)
                reach_wo_keep = cfg.reach([cfg.entry], follow_exc=False, edge_ok=lambda s_, l, d_: (s_.id, l) not in keep_edges)
                only_when_dropped = all(x is not dn[0] for x in reach_wo_drop)
                ok = only_when_dropped and any(x is dn[0] for x in reach_wo_keep)
                if not only_when_dropped and all(x is not dn[0] for x in reach_wo_keep):
                    why = "deletion happens when the index IS in the requested set (inverted selection)"
            rep.check(ok, "R19.5", fi.qualname, "deletion guard: " + gtxt, fn_where(fi, d), "del %s runs only when `%s` is not requested" % (norm(d.targets[0]), loopvar), why)

    # ---- R19.6
    with rep.section("R19.6"):
        fi = index.function(CM + ".concatenate")
        rng = None
        for n in walk_no_nested(fi.node):
            if isinstance(n, ast.Assign) and isinstance(n.value, ast.Call) and call_name(n.value) == "range" and len(n.value.args) == 2:
                rng = n
        if rng is None:
            raise AnalysisError("R19.6: concatenate no longer builds the subset from range(start, stop); shape not recognised")
        a, b = rng.value.args
        ok = False
        msg = "subset range is not of the form range(p, p + width)"
        if isinstance(a, ast.Name) and isinstance(b, ast.BinOp) and isinstance(b.op, ast.Add) and norm(b.left) == a.id:
            width = norm(b.right)
            adv = [n for n in walk_no_nested(fi.node) if isinstance(n, ast.AugAssign) and isinstance(n.op, ast.Add)
                   and norm(n.target) == a.id]
            ok = any(norm(n.value) == width for n in adv) and all(norm(n.value) == width for n in adv)
            msg = "position advances by %s but the subset spans %s" % ([norm(n.value) for n in adv], width)
            # the subset var must be what is handed to new_character_subset
            tgt = norm(rng.targets[0])
            used = any(call_name(c) == "new_character_subset" and any(norm(k.value) == tgt for k in c.keywords if k.arg == "character_indices")
                       or (call_name(c) == "new_character_subset" and any(norm(x) == tgt for x in c.args)) for c in calls_in(fi.node))
            if not used:
                ok, msg = False, "range built but not handed to new_character_subset"
        rep.check(ok, "R19.6", fi.qualname, norm_stmt(rng), fn_where(fi, rng), "subset columns = " + norm(rng.value), msg)

    # ---- R19.8: the label probe and the insertion consult the same container
    with rep.section("R19.8: the label probe and the insertion consult the same container"):
        rep.rule("R19.8", "concatenate: the uniqueness probe for a subset label tests membership in the very mapping the insertion tests (<matrix>.character_subsets, a case-insensitive mapping), not in a derived snapshot")
        ncs = [c for c in calls_in(fi.node) if call_name(c) == "new_character_subset" and isinstance(c.func, ast.Attribute)]
        if not ncs:
            raise AnalysisError("R19.8: concatenate no longer calls new_character_subset")
        for c in ncs:
            lab = get_kwarg(c, "label") or (c.args[0] if c.args else None)
            recv = norm(c.func.value)
            probes = []
            if isinstance(lab, ast.Name):
                for w in walk_no_nested(fi.node):
                    if isinstance(w, (ast.While, ast.If)):
                        for t in ast.walk(w.test):
                            if isinstance(t, ast.Compare) and len(t.ops) == 1 and isinstance(t.ops[0], (ast.In, ast.NotIn)) and norm(t.left) == lab.id:
                                probes.append(t)
            ok = bool(probes) and all(norm(t.comparators[0]) == recv + ".character_subsets" for t in probes)
            what = "; ".join(norm(t) for t in probes) or "no membership probe on the label"
            rep.check(ok, "R19.8", fi.qualname, "subset label probed in a different container: %s" % what[:80], fn_where(fi, probes[0] if probes else c),
                      "the label handed to %s.new_character_subset is probed in %s.character_subsets" % (recv, recv),
                      "concatenate chooses the subset label with `%s` but inserts it through %s.new_character_subset, which rejects labels already in %s.character_subsets - a case-insensitive mapping: a probe through a snapshot/derived collection compares case-sensitively (or goes stale), so labels differing only in case pass the probe and the insertion raises, or a subset is overwritten" % (what[:120], recv, recv))

    # ---- R19.4 raw cell lists stay inside the sequence class
    with rep.section("R19.4 raw lists"):
        CDS = "dendropy.datamodel.charmatrixmodel.CharacterDataSequence"
        internals = {"_character_values", "_character_types", "_character_annotations"}
        raw_getters = set()
        for m in index.methods_of(CDS):
            rets = [r for r in walk_no_nested(m.node) if isinstance(r, ast.Return) and r.value is not None]
            if rets and all(isinstance(r.value, ast.Attribute) and norm(r.value.value) == "self" and r.value.attr in internals for r in rets):
                raw_getters.add(m.name)
        nraw = 0
        for f in index.functions_in_module("dendropy.datamodel.charmatrixmodel"):
            if f.cls is not None and f.cls.qualname == CDS:
                continue
            aliases = {}
            for a in walk_no_nested(f.node):
                if isinstance(a, ast.Assign) and isinstance(a.targets[0], ast.Name) and isinstance(a.value, ast.Call) and call_name(a.value) in raw_getters and isinstance(a.value.func, ast.Attribute) and not a.value.args:
                    aliases[a.targets[0].id] = a.value
            def is_raw(e):
                return (isinstance(e, ast.Call) and call_name(e) in raw_getters and isinstance(e.func, ast.Attribute) and not e.args) or (isinstance(e, ast.Name) and e.id in aliases) or \
                    (isinstance(e, ast.Attribute) and e.attr in internals and norm(e.value) != "self")
            for x in walk_no_nested(f.node):
                hit = None
                if isinstance(x, ast.Call) and isinstance(x.func, ast.Attribute) and x.func.attr in MUTATORS and is_raw(x.func.value):
                    hit = x
                elif isinstance(x, (ast.Assign, ast.AugAssign, ast.Delete)):
                    for t in (x.targets if isinstance(x, (ast.Assign, ast.Delete)) else [x.target]):
                        if isinstance(t, ast.Subscript) and is_raw(t.value):
                            hit = x
                if isinstance(x, ast.Call) and call_name(x) in raw_getters and isinstance(x.func, ast.Attribute) and not x.args:
                    nraw += 1
                if hit is not None:
                    rep.check(False, "R19.4", f.qualname, "raw cell list of a sequence mutated outside the sequence class: %s" % norm_stmt(hit)[:60], fn_where(f, hit), "",
                              "%s changes one of a sequence's three parallel cell lists directly (`%s`): only CharacterDataSequence's own methods keep values, character types and annotations the same length, so after this existing cells lose (or shift) their types/annotations and later deletions or exports raise IndexError" % (f.qualname, norm_stmt(hit)[:80]))
        rep.ob("R19.4", "src/dendropy/datamodel/charmatrixmodel.py:1", "raw-list getters of CharacterDataSequence: %s; %d uses outside the class, none mutating" % (sorted(raw_getters), nraw), True)
        if not raw_getters:
            raise AnalysisError("R19.4: no raw-list getter of CharacterDataSequence found (values())")

    # ---- R19.7
    with rep.section("R19.7"):
        nfor = 0
        for fi in index.methods_of(CM):
            for f, txt, bad in dict_mutated_while_iterated(fi):
                if "_taxon_sequence_map" not in txt and txt != "self":
                    continue
                nfor += 1
                rep.check(bad is None, "R19.7", fi.qualname, norm_stmt(f), fn_where(fi, f),
                          "for-loop over %s in %s" % (txt, fi.name),
                          "the loop iterates %s directly and its body resizes it (%s): RuntimeError / skipped rows" % (txt, norm(bad) if bad is not None else ""))
        rep.floor("R19.7", "for-loops over the row store", 5, nfor)

    # ---- R19.9 subset labels are looked up the way they are stored
    with rep.section("R19.9"):
        rep.rule("R19.9", "character-subset labels are probed the way they are stored: every keyed access of the caseless maps folds the key with the one folding method (C10 R10.9)")
        rep.floor("R19.9", "borrowed obligations", 5, borrow(index, rep, "C10", {"R10.9"}, "R19.9"))

    # ---- R19.10 queries do not add rows
    with rep.section("R19.10"):
        rep.rule("R19.10", "queries and bulk operations touch only rows that exist: inside the matrix classes `self[taxon]` (whose __getitem__ creates a row) is read only for taxa obtained by iterating the matrix itself, tested for membership, or just stored")
        from . import c09
        rep.floor("R19.10", "self[taxon] reads in the matrix classes", 5, c09.matrix_read_rule(index, rep, "R19.10", ["dendropy.datamodel.charmatrixmodel"]))

    # ---- R19.11 the rows named may be given as any iterable
    with rep.section("R19.11"):
        rep.rule("R19.11", "the rows an operation names may be given as any iterable: remove / discard / keep sequences walk their `taxa` argument at most once or materialise it first (a generator must name the same rows as the list of its items)")
        fam = [f for f in index.functions_in_module("dendropy.datamodel.charmatrixmodel") if f.cls is not None and f.name in ("remove_sequences", "discard_sequences", "keep_sequences")]
        rep.floor("R19.11", "row-selection arguments", 3, one_pass_iterable_rule(index, rep, "R19.11", fam, ("taxa",)))

    # ---- R19.12 an export is a matrix over the same alphabet
    with rep.section("R19.12"):
        rep.rule("R19.12", "an exported or cloned matrix keeps the state alphabets of its source: the subclass constructors do not overwrite what the copy-construction route took over (C12 R12.8)")
        rep.floor("R19.12", "borrowed obligations", 1, borrow(index, rep, "C12", {"R12.8"}, "R19.12"))

    # ---- R19.13 a sequence can be extended by itself
    with rep.section("R19.13"):
        rep.rule("R19.13", "extending terminates for repeated objects: CharacterDataSequence iterates lazily over its own value list (its __iter__ is a generator), so extend() materialises its argument before growing that list - m.extend_matrix(m) hands every row to its own extend()")
        seq = index.klass("dendropy.datamodel.charmatrixmodel.CharacterDataSequence")
        it = seq.methods.get("__iter__") or seq.methods.get("__next__")
        nx = seq.methods.get("__next__")
        lazy = any(isinstance(y, (ast.Yield, ast.YieldFrom)) for mm in (it, nx) if mm is not None for y in ast.walk(mm.node))
        ext = seq.methods["extend"]
        g = cfg_of(ext)
        p_ = [x for x in ext.params if x != "self"][0]
        grows = [nd for nd in g.nodes for c in node_calls(nd) if call_name(c) == "extend" and norm(c.func.value) == "self._character_values" and c.args]
        if not grows:
            raise AnalysisError("R19.13: CharacterDataSequence.extend no longer grows self._character_values with extend()")
        for nd in grows:
            arg = [c for c in node_calls(nd) if call_name(c) == "extend" and norm(c.func.value) == "self._character_values"][0].args[0]
            direct = isinstance(arg, ast.Name) and arg.id == p_
            mat = lambda x: x.kind == "stmt" and isinstance(x.ast, ast.Assign) and norm(x.ast.targets[0]) == p_ and isinstance(x.ast.value, ast.Call) and isinstance(x.ast.value.func, ast.Name) and x.ast.value.func.id in ("list", "tuple")
            ok = (not lazy) or (not direct) or g.dominated_by(nd, mat, follow_exc=False)
            rep.check(ok, "R19.13", ext.qualname, "value list extended from a lazy view that may be itself", fn_where(ext, nd.stmt), "extend() materialises `%s` before growing the value list" % p_,
                      "CharacterDataSequence.extend grows self._character_values directly from `%s`; when that is the sequence itself - m.extend_matrix(m), m.extend_sequences(m), seq.extend(seq) - its __iter__ is a generator over the very list being appended to, so the call never returns and memory grows without bound" % p_)
        rep.floor("R19.13", "growth sites in CharacterDataSequence.extend", 1, len(grows))

    # ---- R19.14 every row is a sequence object of its own
    with rep.section("R19.14"):
        rep.rule("R19.14", "every row is a sequence object of its own: (a) a loop of CharacterMatrix that stores a row under the loop's key stores an object made in that iteration, never one bound once outside the loop; (b) a method that takes another matrix (`other_matrix`) puts into its own row map only sequences it constructs (character_sequence_type(...)) - it never binds or bulk-copies the other matrix's sequence objects, so a later edit of one matrix cannot show through in the other")
        na = nb = 0
        for fi in index.functions_in_module(MOD):
            if fi.cls is None or not index.is_subclass(fi.cls, CM):
                continue

            def row_target(t):
                return isinstance(t, ast.Subscript) and (norm(t.value) == "self" or (isinstance(t.value, ast.Attribute) and t.value.attr == "_taxon_sequence_map" and norm(t.value.value) == "self"))
            # (a)
            for lp in walk_no_nested(fi.node):
                if not isinstance(lp, ast.For):
                    continue
                tnames = {x.id for x in ast.walk(lp.target) if isinstance(x, ast.Name)}
                bound_in = {x.id for st in lp.body for x in ast.walk(st) if isinstance(x, ast.Name) and isinstance(x.ctx, ast.Store)} | tnames
                for st in (x for b in lp.body for x in ast.walk(b)):
                    if isinstance(st, ast.Assign) and any(row_target(t) and tnames & {y.id for y in ast.walk(t.slice) if isinstance(y, ast.Name)} for t in st.targets):
                        na += 1
                        v = st.value
                        ok = not (isinstance(v, ast.Name) and v.id not in bound_in)
                        rep.check(ok, "R19.14", fi.qualname, "one object `%s` stored as the row of every key" % norm(v)[:40], fn_where(fi, st),
                                  "%s: the row stored per key is made per key" % fi.name,
                                  "%s stores `%s`, bound once outside the loop, as the row of every key the loop visits: all those taxa share ONE sequence object, so appending to one row changes all of them" % (fi.qualname, norm(v)[:40]))
            # (b)
            if "other_matrix" not in fi.all_params:
                continue
            for st in walk_no_nested(fi.node):
                if isinstance(st, ast.Assign) and any(row_target(t) for t in st.targets):
                    nb += 1
                    v = st.value
                    ok = isinstance(v, ast.Call) and ("sequence_type" in call_name(v) or call_name(v) in ("CharacterDataSequence", "list", "deepcopy", "copy"))
                    rep.check(ok, "R19.14", fi.qualname, "row bound to `%s`" % norm(v)[:50], fn_where(fi, st), "%s: rows taken over are rebuilt (%s)" % (fi.name, norm(v)[:40]),
                              "%s binds `%s` as a row of this matrix: the sequence object stays shared with other_matrix, and extending or editing the row in one matrix silently changes the other" % (fi.qualname, norm(v)[:60]))
                if isinstance(st, ast.Call) and isinstance(st.func, ast.Attribute) and st.func.attr in ("update", "setdefault") and isinstance(st.func.value, ast.Attribute) and st.func.value.attr == "_taxon_sequence_map" and norm(st.func.value.value) == "self":
                    nb += 1
                    rep.check(False, "R19.14", fi.qualname, "bulk copy of the other matrix's rows", fn_where(fi, st), "%s: no bulk copy" % fi.name,
                              "%s copies rows with `%s`: the sequence objects of other_matrix become rows of this matrix as they are, so the two matrices share them and a later extend/edit of either shows in both" % (fi.qualname, norm(st)[:70]))
        rep.floor("R19.14", "keyed row stores in loops", 3, na)
        rep.floor("R19.14", "row stores in methods that take another matrix", 4, nb)

    # ---- R19.15 a row is present when its taxon is a key; a miss skips one taxon only
    with rep.section("R19.15"):
        rep.rule("R19.15", "(a) a row is present when its taxon is a key of the row map: CharacterMatrix methods decide presence with `in` / `not in` (or a lookup compared with None), never by the truthiness of `_taxon_sequence_map.get(taxon)` - an empty sequence is a row, and it is falsy; (b) a miss skips one taxon only: in discard_sequences the handler that forgives a missing row encloses the deletion of ONE taxon - a try around the whole loop (or around remove_sequences, which stops at the first miss) leaves every taxon listed after the first missing one in place")
        na = nb_ = 0
        for fi in index.functions_in_module(MOD):
            if fi.cls is None or not index.is_subclass(fi.cls, CM):
                continue
            g = None
            gets = {}
            for st in walk_no_nested(fi.node):
                if isinstance(st, ast.Assign) and len(st.targets) == 1 and isinstance(st.targets[0], ast.Name) and isinstance(st.value, ast.Call) and call_name(st.value) == "get" and "_taxon_sequence_map" in norm(st.value.func.value):
                    gets[st.targets[0].id] = st
            g = cfg_of(fi)
            for t in g.nodes:
                if t.kind != "test":
                    continue
                e = t.ast
                direct = isinstance(e, ast.Call) and call_name(e) == "get" and isinstance(e.func, ast.Attribute) and "_taxon_sequence_map" in norm(e.func.value)
                via = isinstance(e, ast.Name) and e.id in gets
                if direct or via:
                    na += 1
                    rep.check(False, "R19.15", fi.qualname, "row presence decided by truthiness of `%s`" % norm(e)[:50], fn_where(fi, t.stmt), "",
                              "%s decides whether a taxon has a row by the truthiness of `%s`: an EMPTY sequence is a row too (filled in by fill_taxa, or left by a read), and it is falsy - add_sequences then overwrites it from the other matrix although its documentation adds rows for missing taxa only" % (fi.qualname, norm(e)[:60]))
                elif isinstance(e, ast.Compare) and len(e.ops) == 1 and isinstance(e.ops[0], (ast.In, ast.NotIn)) and "_taxon_sequence_map" in norm(e.comparators[0]):
                    na += 1
            if fi.name == "discard_sequences":
                tries = [x for x in walk_no_nested(fi.node) if isinstance(x, ast.Try) and any(h.type is None or "KeyError" in norm(h.type) or "Exception" in norm(h.type) for h in x.handlers)]
                for tr in tries:
                    nb_ += 1
                    bulk = [y for b in tr.body for y in ast.walk(b) if isinstance(y, (ast.For, ast.While)) or (isinstance(y, ast.Call) and call_name(y) in ("remove_sequences", "keep_sequences"))]
                    rep.check(not bulk, "R19.15", fi.qualname, "one forgiving handler around the whole removal", fn_where(fi, tr), "discard_sequences forgives a miss per taxon",
                              "CharacterMatrix.discard_sequences wraps the whole removal (`%s`) in one try/except: the first listed taxon that has no row raises inside it and ends the removal, so the taxa listed after it keep their rows - discard_sequences([b, a]) on rows a, c, d leaves row a in place" % ((norm(bulk[0])[:50] if not isinstance(bulk[0], ast.stmt) else norm_stmt(bulk[0])[:50]) if bulk else ""))
        rep.floor("R19.15", "presence tests on the row map", 5, na)
        rep.floor("R19.15", "forgiving handlers in discard_sequences", 1, nb_)

    # ---- R19.16 the argument may be the receiver
    with rep.section("R19.16"):
        rep.rule("R19.16", "the argument may be the receiver: a row operation of CharacterMatrix that takes another matrix never removes rows from itself (discard / remove / keep sequences, a del or clear on the row map) on a path that goes on to read that matrix - `m.update_sequences(m)`, `m.replace_sequences(m)` must leave m as it is, and with the rows dropped first there is nothing left to copy")
        cm16 = index.klass("dendropy.datamodel.charmatrixmodel.CharacterMatrix")
        n16 = 0
        REMOVERS = ("discard_sequences", "remove_sequences", "keep_sequences", "clear", "clear_sequences", "purge")
        for mname, mf in sorted(cm16.methods.items()):
            others = [p_ for p_ in mf.params if p_ in ("other_matrix", "other", "char_matrix", "other_char_matrix")]
            if not others or mname.startswith("__"):
                continue
            n16 += 1
            pn = others[0]
            g = cfg_of(mf)

            def removes(nd):
                for c in node_calls(nd):
                    if isinstance(c.func, ast.Attribute) and c.func.attr in REMOVERS and norm(c.func.value) in ("self", "self._taxon_sequence_map"):
                        return True
                return nd.kind == "stmt" and isinstance(nd.ast, ast.Delete) and any(isinstance(t, ast.Subscript) and norm(t.value) in ("self", "self._taxon_sequence_map") for t in nd.ast.targets)

            def reads_other(nd, pn=pn):
                return any(isinstance(x, ast.Name) and x.id == pn for e in node_exprs(nd) + ([nd.ast] if nd.kind in ("forinit", "test") else []) if e is not None for x in ast.walk(e))
            bad = None
            for nd in g.nodes:
                if removes(nd):
                    w = g.can_reach(nd, reads_other, follow_exc=False)
                    if w is not None:
                        bad = (nd, w)
                        break
            rep.check(bad is None, "R19.16", mf.qualname, "rows removed before the argument is read", fn_where(mf, bad[0].stmt if bad else None), "%s never drops its own rows before reading `%s`" % (mname, pn),
                      "%s removes rows of the receiver (`%s`) and afterwards reads `%s` (`%s`): when the argument IS the receiver - `m.%s(m)`, documented as replacing / adding rows from the argument - the first step empties the matrix and the second finds nothing to copy, so the matrix ends up with no rows" % (mf.qualname, norm_stmt(bad[0].stmt)[:50] if bad else "", pn, norm_stmt(bad[1].stmt)[:50] if bad and bad[1].stmt is not None else "", mname))
        rep.floor("R19.16", "row operations taking another matrix", 4, n16)

    # ---- R19.17 the first row is not the matrix
    with rep.section("R19.17"):
        rep.rule("R19.17", "the first row is not the matrix: `sequence_size` (alias `vector_size`) is the length of the FIRST row only - rows may differ in length (extend_sequences with a partly overlapping matrix, rows filled one by one), which is why the class has max_sequence_size. No method of the matrix classes refuses a request (a test that leads to a raise) by comparing with `self.sequence_size`: a valid column set would be refused on a matrix whose first row happens to be the short one")
        n17 = 0
        for f in index.functions_in_module("dendropy.datamodel.charmatrixmodel"):
            if f.cls is None:
                continue
            g = cfg_of(f)
            for nd in g.nodes:
                if nd.kind == "test" and any(isinstance(x, ast.Attribute) and x.attr in ("sequence_size", "vector_size") and norm(x.value) == "self" for x in ast.walk(nd.ast)):
                    n17 += 1
                    r_ = raises_in_branch(g, nd, "t") or raises_in_branch(g, nd, "f")
                    rep.check(r_ is None, "R19.17", f.qualname, "request refused by the first row's length", fn_where(f, nd.stmt), "%s: `%s` does not lead to a refusal" % (f.name, norm(nd.ast)[:50]),
                              "%s raises on `%s`: sequence_size is the length of the first stored row, not the number of columns of the matrix - on a matrix with rows of different lengths (after extend_sequences with a partly overlapping matrix) a subset that every longer row can serve is refused, where the export is documented to give exactly the selected columns for every taxon" % (f.qualname, norm(nd.ast)[:60]))
        ssz = index.klass("dendropy.datamodel.charmatrixmodel.CharacterMatrix").methods.get("_get_sequence_size")
        if ssz is None:
            raise AnalysisError("R19.17: CharacterMatrix._get_sequence_size is gone")
        rep.ob("R19.17", ssz.qualname, "%d tests against self.sequence_size in the matrix classes examined" % n17, fn_where(ssz))

    # ---- R19.18 a namespace taken out of the keyword arguments goes back in
    with rep.section("R19.18"):
        rep.rule("R19.18", "a namespace taken out of the keyword arguments goes back in: process_kwargs_dict_for_taxon_namespace() POPS the caller's `taxon_namespace` out of kwargs; a matrix-model function that does so and then forwards `**kwargs` to a reading call puts the namespace back (a store `kwargs['taxon_namespace'] = ...`, or an explicit `taxon_namespace=` argument) on EVERY path to that call - otherwise each source is read into a namespace of its own, the caller's namespace stays empty and concatenation refuses the pieces ('Different taxon_namespace references')")
        n18 = 0
        for f in index.functions_in_module("dendropy.datamodel.charmatrixmodel"):
            g = cfg_of(f)
            pops = [nd for nd in g.nodes if any(call_name(c) == "process_kwargs_dict_for_taxon_namespace" and c.args and norm(c.args[0]) == "kwargs" for c in node_calls(nd))]
            if not pops:
                continue
            fwd = [nd for nd in g.nodes if any(has_star_kwargs(c) and get_kwarg(c, "taxon_namespace") is None and (call_name(c) or "") in ("get", "get_from_stream", "get_from_path", "get_from_string", "get_from_url", "read", "read_from_stream", "read_from_path", "read_from_string") for c in node_calls(nd))]    # the reading front ends take the namespace as an option; get_reader() takes reader options only (the namespace travels in a factory)
            if not fwd:
                continue
            n18 += 1
            fid = {id(x) for x in fwd}

            def puts_back(nd):
                return nd.kind == "stmt" and isinstance(nd.ast, ast.Assign) and any(isinstance(t, ast.Subscript) and norm(t.value) == "kwargs" and isinstance(t.slice, ast.Constant) and t.slice.value == "taxon_namespace" for t in nd.ast.targets)
            w = None
            for pnode in pops:
                w = w or g.can_reach(pnode, lambda nd: id(nd) in fid, avoid=puts_back, follow_exc=False)
            rep.check(w is None, "R19.18", f.qualname, "the caller's namespace is not handed on to the reader", fn_where(f, w.stmt if w is not None else None), "%s puts the namespace back before `**kwargs` is forwarded" % f.name,
                      "%s pops the caller's taxon_namespace out of kwargs and can reach `%s` without putting it back: with `taxon_namespace=ns` given, every stream is read into a fresh namespace - concatenate() then raises ValueError (different namespaces) for two or more sources, and for one source the result is over another namespace than the caller's, which stays empty" % (f.qualname, norm_stmt(w.stmt)[:60] if w is not None and w.stmt is not None else ""))
        rep.floor("R19.18", "functions that pop the namespace and forward **kwargs", 1, n18)

    # ---- R19.19 remove raises, discard does not
    with rep.section("R19.19"):
        rep.rule("R19.19", "remove raises, discard does not: CharacterMatrix.remove_sequences is documented to raise KeyError for a taxon that has no row (discard_sequences is the forgiving twin) - its deletion is a `del map[taxon]` or a one-argument pop(), never `pop(taxon, <default>)` and never behind a membership test, which would turn it into a second discard_sequences and hide a taxon of another namespace")
        rs = index.function("dendropy.datamodel.charmatrixmodel.CharacterMatrix.remove_sequences")
        dels = [x for x in ast.walk(rs.node) if isinstance(x, ast.Delete) and any(isinstance(t, ast.Subscript) and "_taxon_sequence_map" in norm(t.value) for t in x.targets)]
        pops1 = [c for c in calls_in(rs.node) if call_name(c) == "pop" and "_taxon_sequence_map" in norm(c.func.value) and len(c.args) == 1 and not c.keywords]
        soft = [c for c in calls_in(rs.node) if call_name(c) in ("pop", "discard") and "_taxon_sequence_map" in norm(c.func.value) and (len(c.args) > 1 or call_name(c) == "discard")]
        rep.check(bool(dels or pops1) and not soft, "R19.19", rs.qualname, "a missing row is passed over silently", fn_where(rs, soft[0] if soft else None), "remove_sequences deletes with del / pop(k): a missing row raises KeyError",
                  "CharacterMatrix.remove_sequences deletes with `%s`: a taxon without a row - or a taxon of another namespace - is passed over in silence where the documentation promises KeyError; the method has become a copy of discard_sequences" % (norm(soft[0])[:60] if soft else "no raising deletion"))


def _r19_3(rep, fi, seeds):
    t = tainted_names(fi, seeds)
    # taxa (dict keys) are legitimately shared; rows are not
    n_checked = 0
    for n in walk_no_nested(fi.node):
        bad = None
        if isinstance(n, ast.Call) and isinstance(n.func, ast.Attribute) and n.func.attr in MUTATORS:
            ch = attr_chain(n.func.value)
            root = None
            v = n.func.value
            while isinstance(v, (ast.Attribute, ast.Subscript)):
                v = v.value
            if isinstance(v, ast.Name):
                root = v.id
            if root in t and root != "self" and root != "cls":
                # receivers created in this function (e.g. concatenated_chars) are not arguments
                bad = n
        elif isinstance(n, (ast.Attribute, ast.Subscript)) and isinstance(n.ctx, (ast.Store, ast.Del)):
            v = n.value
            while isinstance(v, (ast.Attribute, ast.Subscript)):
                v = v.value
            if isinstance(v, ast.Name) and v.id in t and v.id not in ("self", "cls"):
                bad = n
        if bad is not None:
            n_checked += 1
            rep.check(False, "R19.3", fi.qualname, norm(bad), fn_where(fi, bad), "write through argument-derived name",
                      "%s mutates `%s`, which derives from its argument %s: argument matrices must be left unchanged" % (fi.qualname, norm(bad), seeds))
    # rows stored into self must be fresh wrappers
    for w in writes_in(fi.node):
        if w.attr != "_taxon_sequence_map" or w.kind != "substore" or w.value is None:
            continue
        if not (names_in(w.value) & (t - {"self"})):
            continue
        v = w.value
        fresh = isinstance(v, ast.Call) and (norm(v.func).endswith("character_sequence_type") or call_name(v) in ("list", "copy", "deepcopy"))
        rep.check(fresh, "R19.3", fi.qualname, norm_stmt(w.stmt), fn_where(fi, w.stmt),
                  "row stored from argument is wrapped: " + norm(v)[:80],
                  "%s stores the argument matrix's own row object into self (no fresh character_sequence_type(...) copy): later edits of one matrix show through the other" % fi.qualname)
        n_checked += 1
    if n_checked == 0:
        rep.ob("R19.3", fn_where(fi), "%s: no write reaches the argument" % fi.qualname, True, nontrivial=True)
