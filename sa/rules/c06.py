"""C06 Tree-sample summaries are independent of partitioning, order and scheduling."""
import ast

from .common import *  # noqa
from . import c05

TCM = "dendropy.datamodel.treecollectionmodel"
TA = TCM + ".TreeArray"
SD = TCM + ".SplitDistribution"
ST = "dendropy.application.sumtrees"
TREE_LISTS = ("_tree_split_bitmasks", "_tree_edge_lengths", "_tree_leafset_bitmasks", "_tree_weights")
COMPARED_SETTINGS = ("is_rooted_trees", "ignore_edge_lengths", "ignore_node_ages", "use_tree_weights")


def self_fields_touched(index, fi, depth=3, _seen=None):
    """Attributes of self that fi writes, mutates, or calls a method on
    (sub-object delegation), following self.method() calls."""
    _seen = _seen if _seen is not None else set()
    if fi.qualname in _seen or depth < 0:
        return set()
    _seen.add(fi.qualname)
    out = set()
    for w in writes_in(fi.node):
        if isinstance(w.base, ast.Name) and w.base.id == "self":
            out.add(w.attr)
    for c in calls_in(fi.node):
        f = c.func
        if isinstance(f, ast.Attribute) and is_self_attr(f.value):
            out.add(f.value.attr)       # self.A.m(...)
        elif isinstance(f, ast.Attribute) and isinstance(f.value, ast.Name) and f.value.id == "self":
            grade, cands = index.resolve_call(c, fi)
            for cand in cands:
                if hasattr(cand, "node") and isinstance(cand.node, ast.FunctionDef):
                    out |= self_fields_touched(index, cand, depth - 1, _seen)
    return out


def fields_in_rejections(fi):
    """self attributes read inside assert tests / conditions whose branch raises."""
    out = set()
    cfg = cfg_of(fi)
    for n in cfg.nodes:
        if n.kind != "test":
            continue
        rej = isinstance(n.stmt, ast.Assert) or raises_in_branch(cfg, n, "t") is not None
        if not rej:
            continue
        for a, base, node in attr_reads(n.ast):
            if isinstance(base, ast.Name):
                out.add(a)
    return out


def emptiness_edge(test, operand):
    """If `test` decides emptiness of `operand` (text) return the edge label on
    which the operand is known NON-empty / its rooting is known not None."""
    t = test
    if isinstance(t, ast.Call) and call_name(t) == "len" and t.args and norm(t.args[0]) == operand:
        return "t"
    if isinstance(t, (ast.Name, ast.Attribute)) and norm(t) == operand:
        return "t"
    if isinstance(t, ast.Attribute) and norm(t.value) == operand and t.attr in TREE_LISTS:
        return "t"
    cp = compare_parts(t)
    if cp:
        l, op, r = cp
        def is_len(e):
            return (isinstance(e, ast.Call) and call_name(e) == "len" and e.args
                    and (norm(e.args[0]) == operand or (isinstance(e.args[0], ast.Attribute) and norm(e.args[0].value) == operand and e.args[0].attr in TREE_LISTS)))
        if is_len(l) and isinstance(r, ast.Constant):
            v = r.value
            if (op == "Gt" and v == 0) or (op == "GtE" and v == 1) or (op == "NotEq" and v == 0):
                return "t"
            if (op == "Eq" and v == 0) or (op == "Lt" and v == 1) or (op == "LtE" and v == 0):
                return "f"
        if is_len(r) and isinstance(l, ast.Constant):
            v = l.value
            if (op == "Lt" and v == 0) or (op == "NotEq" and v == 0):
                return "t"
            if op == "Eq" and v == 0:
                return "f"
        # rooting known
        def is_rooting(e):
            return isinstance(e, ast.Attribute) and e.attr in ("_is_rooted_trees", "is_rooted_trees") and norm(e.value) == operand
        if is_rooting(l) and is_none(r):
            return "t" if op in ("IsNot", "NotEq") else ("f" if op in ("Is", "Eq") else None)
    return None


def like_to_like_rule(index, rep, rid, quals):
    """A merge adds each field of the argument to the SAME field of the receiver: `self.F (+)= other.G`,
    `self.F[k] += other.G[k]`, `self.F.update/extend(other.G)` all have F == G."""
    n = 0
    for q in quals:
        f = index.function(q)
        others = [p_ for p_ in f.params if p_ not in ("self", "cls")]
        if not others:
            continue
        o = others[0]
        for st in ast.walk(f.node):
            tgt = val = None
            if isinstance(st, ast.AugAssign):
                tgt, val = st.target, st.value
            elif isinstance(st, ast.Expr) and isinstance(st.value, ast.Call) and isinstance(st.value.func, ast.Attribute) and st.value.func.attr in ("update", "extend") and st.value.args:
                tgt, val = st.value.func.value, st.value.args[0]
            if tgt is None:
                continue
            base = tgt
            while isinstance(base, ast.Subscript):
                base = base.value
            if not (isinstance(base, ast.Attribute) and norm(base.value) == "self"):
                continue
            src = [a for a in ast.walk(val) if isinstance(a, ast.Attribute) and norm(a.value) == o]
            if len(src) != 1:
                continue
            n += 1
            rep.check(src[0].attr == base.attr, rid, f.qualname, "self.%s merged with %s.%s" % (base.attr, o, src[0].attr), fn_where(f, st), "%s: self.%s takes %s.%s" % (f.name, base.attr, o, src[0].attr),
                      "%s merges `%s.%s` into `self.%s` (`%s`): a merged collection then normalises its (weighted) counts by the wrong total, so split frequencies after update/extend/+ differ from those of the same trees added one at a time" % (f.qualname, o, src[0].attr, base.attr, norm_stmt(st)[:70]))
    return n


def per_file_offset_rule(index, rep, rid):
    """The burn-in (tree_offset) applies to EACH file.  Both multi-file readers - TreeArray.read_from_files and
    sumtrees' serial reader - must count trees within the current file: the counter compared with the offset is
    reset when the yielder's current_file_index changes and advanced once per tree; it is not the loop's running index."""
    n = 0
    for q in ("dendropy.datamodel.treecollectionmodel.TreeArray.read_from_files", "dendropy.application.sumtrees._read_into_tree_array"):
        fi = index.function(q)
        loops = [l for l in ast.walk(fi.node) if isinstance(l, ast.For) and any(isinstance(c, ast.Call) and call_name(c) == "add_tree" for c in ast.walk(l))]
        if len(loops) != 1:
            raise AnalysisError("%s: %s: the tree loop was not recognised" % (rid, q))
        loop = loops[0]
        guards = []
        for iff in ast.walk(loop):
            if not isinstance(iff, ast.If):
                continue
            t_, tb_, fb_ = pos_if(iff)
            cp = compare_parts(t_)
            if not (cp and isinstance(cp[0], ast.Name)):
                continue
            adds_t = any(isinstance(c, ast.Call) and call_name(c) == "add_tree" for st in tb_ for c in ast.walk(st))
            adds_f = any(isinstance(c, ast.Call) and call_name(c) == "add_tree" for st in fb_ for c in ast.walk(st))
            if (adds_t and cp[1] in ("GtE", "Gt")) or (adds_f and cp[1] in ("Lt", "LtE")):
                guards.append((iff, cp[0].id))
        if not guards:
            raise AnalysisError("%s: %s: the burn-in comparison guarding add_tree was not recognised" % (rid, q))
        fileidx = {a.targets[0].id for a in ast.walk(loop) if isinstance(a, ast.Assign) and isinstance(a.targets[0], ast.Name) and norm(a.value).endswith(".current_file_index")}
        for iff, x in guards:
            n += 1
            loop_targets = {t.id for t in ast.walk(loop.target) if isinstance(t, ast.Name)}
            resets = []
            for i2 in ast.walk(loop):
                if isinstance(i2, ast.If) and names_in(i2.test) & fileidx:
                    t2, tb2, fb2 = pos_if(i2)
                    cp2 = compare_parts(t2)
                    changed = tb2 if (cp2 and cp2[1] in ("NotEq", "IsNot")) else (fb2 if (cp2 and cp2[1] in ("Eq", "Is")) else [])
                    resets += [a for st in changed for a in ast.walk(st) if isinstance(a, ast.Assign) and norm(a.targets[0]) == x and const_value(a.value, None) == 0]
            incs = [a for a in ast.walk(loop) if isinstance(a, ast.AugAssign) and norm(a.target) == x and isinstance(a.op, ast.Add) and const_value(a.value, None) == 1]
            ok = x not in loop_targets and bool(resets) and len(incs) == 1
            why = "it is the loop's running index over all files" if x in loop_targets else ("it is not reset when the current file changes" if not resets else "it is not advanced exactly once per tree")
            rep.check(ok, rid, fi.qualname, "burn-in counter `%s`: %s" % (x, why), fn_where(fi, iff), "%s: the burn-in counter is reset per file and advanced once per tree" % fi.name,
                      "%s compares `%s` with the burn-in, but %s: with more than one input file the burn-in is applied to the first file only (or to a different number of trees), so the serial route analyses a different set of trees from the per-file workers and the summaries differ with the number of processes" % (fi.qualname, x, why))
    return n


def run(index, rep, tier):
    rep.rule("R06.1", "TreeArray: every length-changing operation on one of the four parallel per-tree lists is matched by the same operation on the other three on every path")
    rep.rule("R06.2", "every field the accumulate-one function writes is merged by each merge function (SplitDistribution.update; TreeArray.update/extend)")
    rep.rule("R06.3", "a rejection on the rooting state in TreeArray.update/extend is unreachable unless both operands are known non-empty (or their rooting is known not None)")
    rep.rule("R06.4", "consensus insertion order is a total order independent of arrival order (shared with R05.3)")
    rep.rule("R06.5", "worker protocol: every non-killed exit of TreeAnalysisWorker.run passes results_queue.put; the collation loop waits for num_processes results, combines them only through update(), and worker/master TreeArrays get the same compared settings")
    index.klass(TA)

    # ---- R06.1
    with rep.section("R06.1"):
        nops = 0
        for fi in index.methods_of(TA):
            nops += parallel_lists_rule(rep, "R06.1", fi, TREE_LISTS)
        rep.floor("R06.1", "length-changing operations on the per-tree lists", 8, nops)

    # ---- R06.2
    with rep.section("R06.2"):
        pairs = [
            (SD + ".count_splits_on_tree", [SD + ".update"]),
            (TA + ".add_tree", [TA + ".update", TA + ".extend"]),
        ]
        for acc, merges in pairs:
            afi = index.function(acc)
            acc_fields = self_fields_touched(index, afi)
            rep.floor("R06.2", "fields written by " + acc, 4, len(acc_fields))
            for mq in merges:
                mfi = index.function(mq)
                merged = self_fields_touched(index, mfi)
                guarded = fields_in_rejections(mfi)
                for f in sorted(acc_fields):
                    ok = f in merged or f in guarded or ("_" + f) in guarded or f.lstrip("_") in guarded
                    rep.check(ok, "R06.2", mfi.qualname, "field %s not merged" % f, fn_where(mfi),
                              "%s merges field %s written by %s" % (mfi.name, f, afi.name),
                              "%s accumulates into self.%s for every tree but %s neither merges nor compares that field: data of partitioned runs is silently lost"
                              % (afi.qualname, f, mfi.qualname))

    # ---- R06.2 like to like
    with rep.section("R06.2 like to like"):
        rep.floor("R06.2", "field-to-field merges in SplitDistribution.update", 3, like_to_like_rule(index, rep, "R06.2", ["dendropy.datamodel.treecollectionmodel.SplitDistribution.update"]))

    # ---- R06.7
    with rep.section("R06.7"):
        rep.rule("R06.7", "burn-in is per file on every route: the counter compared with tree_offset in TreeArray.read_from_files and in sumtrees' serial reader is reset when the current file changes and advanced once per tree")
        rep.floor("R06.7", "burn-in guards in the multi-file readers", 2, per_file_offset_rule(index, rep, "R06.7"))

    # ---- R06.6 merge copies, never aliases
    with rep.section("R06.6 merge copies, never aliases"):
        rep.rule("R06.6", "merging never aliases: a merge function does not store an element of the argument's containers (a per-split list) into self without copying")
        nst = 0
        for mq in (SD + ".update", TA + ".update", TA + ".extend"):
            mfi = index.function(mq)
            other = [p for p in mfi.params if p != "self"][0]
            for n in walk_no_nested(mfi.node):
                if isinstance(n, ast.Assign) and len(n.targets) == 1:
                    t = n.targets[0]
                    root = t
                    while isinstance(root, (ast.Attribute, ast.Subscript)):
                        root = root.value
                    if not (isinstance(root, ast.Name) and root.id == "self"):
                        continue
                    nst += 1
                    v = n.value
                    alias = isinstance(v, ast.Subscript) and not isinstance(v.slice, ast.Slice) and _root_of(v) == other
                    if isinstance(v, ast.Call) and call_name(v) in ("get", "setdefault", "pop") and _root_of(v.func) == other:
                        alias = True
                    if isinstance(t, ast.Subscript) and isinstance(v, ast.Name) and v.id in tainted_names(mfi, [other]) and v.id != other:
                        alias = True   # an element obtained by iterating the argument's containers
                    rep.check(not alias, "R06.6", mfi.qualname, "aliases argument element: " + norm_stmt(n)[:70], fn_where(mfi, n), "%s: `%s` does not alias a mutable element of the argument" % (mfi.name, norm_stmt(n)[:50]),
                              "%s stores `%s`, the argument's own container element, into self without copying: a later merge into either collection also changes the other (the same sub-collection merged into two masters, or a + b followed by b + a, double-counts values)" % (mfi.qualname, norm(v)[:60]))
        rep.floor("R06.6", "stores into self in the merge functions", 4, nst)

    # ---- R06.3
    with rep.section("R06.3"):
        nrej = 0
        for name in ("update", "extend"):
            fi = index.function(TA + "." + name)
            other = [p for p in fi.params if p != "self"][0]
            cfg = cfg_of(fi)
            for n in cfg.nodes:
                if n.kind != "test":
                    continue
                mentions = [a for a, b, _ in attr_reads(n.ast) if a in ("_is_rooted_trees", "is_rooted_trees")]
                if not mentions:
                    continue
                if isinstance(n.stmt, ast.Assert):
                    rej_label = "f"
                elif raises_in_branch(cfg, n, "t") is not None:
                    rej_label = "t"
                elif raises_in_branch(cfg, n, "f") is not None:
                    rej_label = "f"
                else:
                    continue
                if emptiness_edge(n.ast, "self") or emptiness_edge(n.ast, other):
                    # this test is itself a "rooting is None" test, not a rejection comparison
                    cp = compare_parts(n.ast)
                    if cp and (is_none(cp[0]) or is_none(cp[2])):
                        continue
                nrej += 1
                for operand in ("self", other):
                    def edge_ok(src, lab, dst, operand=operand):
                        if src.kind == "test":
                            e = emptiness_edge(src.ast, operand)
                            if e is not None and lab == e:
                                return False
                        return True
                    reach = cfg.reach([cfg.entry], follow_exc=False, edge_ok=edge_ok)
                    ok = all(x is not n for x in reach)
                    rep.check(ok, "R06.3", fi.qualname,
                              "rooting rejection `%s` reachable with %s possibly empty" % (norm(n.ast), "self" if operand == "self" else "other"),
                              fn_where(fi, n.stmt),
                              "%s: rejection `%s` requires %s known non-empty" % (name, norm(n.ast), operand),
                              "TreeArray.%s can reject on the rooting state (`%s`) on a path where `%s` was never established non-empty; an empty array has no rooting of its own "
                              "(undefined while empty), so merging an idle worker's empty result, or into/onto an empty array, fails" % (name, norm(n.ast), operand))
        rep.floor("R06.3", "rooting rejections in TreeArray.update/extend", 2, nrej)

    # ---- R06.4 (shared)
    with rep.section("R06.4 (shared)"):
        c05.rule_sort_order(index, rep, "R06.4")

    # ---- R06.5
    with rep.section("R06.5"):
        run_fi = index.function(ST + ".TreeAnalysisWorker.run")
        cfg = cfg_of(run_fi)

        def is_put(n):
            return any(call_name(c) == "put" and "results_queue" in norm(c.func) for c in node_calls(n))

        def not_kill_edge(src, lab, dst):
            if src.kind == "test" and norm(src.ast) == "self.kill_received" and lab == "t":
                return False
            return True
        puts = [n for n in cfg.nodes if is_put(n)]
        rep.floor("R06.5", "results_queue.put sites in worker.run", 1, len(puts))
        # handled exceptions are ordinary control flow here: the loop is left through `except queue.Empty: break`
        w = cfg.can_reach(cfg.entry, lambda n: n is cfg.exit, avoid=is_put, follow_exc=True, edge_ok=not_kill_edge)
        rep.check(w is None, "R06.5", run_fi.qualname, "exit without results_queue.put", fn_where(run_fi),
                  "worker.run: every non-killed path to the normal exit passes results_queue.put",
                  "TreeAnalysisWorker.run can finish (kill_received false) without putting a result: the collation loop waits for num_processes results forever")
        # a put inside the task loop must leave the loop (otherwise the same partial result is sent once per task and merged repeatedly)
        for pn in puts:
            heads = [h for l, h in cfg.loops.items() if _inside_loop_of(l, pn.stmt)]
            again = any(cfg.can_reach(pn, lambda n, h=h: n is h) is not None for h in heads)
            rep.check(not again, "R06.5", run_fi.qualname, "put repeated per task: " + norm_stmt(pn.stmt)[:60], fn_where(run_fi, pn.stmt),
                      "worker.run: `%s` is executed at most once (it is outside the task loop or leaves it)" % norm_stmt(pn.stmt)[:50],
                      "TreeAnalysisWorker.run puts a result inside the task loop and keeps looping (`%s`): the same growing tree array is reported once per task and the collation loop merges it repeatedly / counts it as several workers" % norm_stmt(pn.stmt)[:60])
        # put inside the task loop must not be the only one: the final put must be outside any loop
        final_puts = [n for n in puts if not _inside_loop(run_fi.node, n.stmt)]
        rep.check(bool(final_puts), "R06.5", run_fi.qualname, "final put outside task loop", fn_where(run_fi),
                  "worker.run: the result is put once, after the task loop",
                  "the worker's tree array is only put from inside the task loop: a worker that receives no task never reports")

        par = index.function(ST + ".TreeProcessor.parallel_analyze_trees")
        loops = [n for n in walk_no_nested(par.node) if isinstance(n, ast.While)]
        coll = [l for l in loops if any(call_name(c) == "get" and "results_queue" in norm(c.func) for c in calls_in(l))]
        if len(coll) != 1:
            raise AnalysisError("R06.5: collation loop in parallel_analyze_trees not found (shape not recognised)")
        loop = coll[0]
        cp = compare_parts(loop.test)
        launch = [f for f in walk_no_nested(par.node) if isinstance(f, ast.For) and any(call_name(c) == "TreeAnalysisWorker" for c in calls_in(f))]
        bound = None
        if launch and isinstance(launch[0].iter, ast.Call) and call_name(launch[0].iter) == "range" and len(launch[0].iter.args) == 1:
            bound = norm(launch[0].iter.args[0])
        ok = bool(cp) and cp[1] == "Lt" and bound is not None and norm(cp[2]) == bound
        rep.check(ok, "R06.5", par.qualname, "collation bound: " + norm(loop.test), fn_where(par, loop),
                  "collation loop `%s` waits for as many results as workers launched (range(%s))" % (norm(loop.test), bound),
                  "the collation loop's bound `%s` does not equal the number of workers launched (%s)" % (norm(loop.test), bound))
        counter = norm(cp[0]) if cp else None
        incs = [n for n in walk_no_nested(loop) if isinstance(n, ast.AugAssign) and norm(n.target) == counter]
        ok = len(incs) == 1 and isinstance(incs[0].op, ast.Add) and const_value(incs[0].value) == 1
        rep.check(ok, "R06.5", par.qualname, "collation counter increment", fn_where(par, loop),
                  "result counter advances by exactly 1 per merged result", "the result counter is not advanced by exactly one per result")
        # result variable only flows to isinstance / raise / update / attribute reads
        res_names = set()
        for n in walk_no_nested(loop):
            if isinstance(n, ast.Assign) and isinstance(n.value, ast.Call) and call_name(n.value) == "get" and "results_queue" in norm(n.value.func):
                res_names |= {t.id for t in n.targets if isinstance(t, ast.Name)}
        pm = {}
        for p in ast.walk(loop):
            for c in ast.iter_child_nodes(p):
                pm[c] = p
        bad_use = None
        n_update = 0
        for n in walk_no_nested(loop):
            if isinstance(n, ast.Name) and n.id in res_names and isinstance(n.ctx, ast.Load):
                p = pm.get(n)
                if isinstance(p, ast.Call) and n in p.args:
                    cn = call_name(p)
                    if cn == "update" and isinstance(p.func, ast.Attribute):
                        n_update += 1
                    elif cn in ("isinstance",):
                        pass
                    else:
                        bad_use = p
                elif isinstance(p, ast.Raise) or isinstance(p, ast.Attribute):
                    pass
                elif isinstance(p, (ast.Subscript, ast.Compare, ast.BinOp)):
                    bad_use = p
        rep.check(bad_use is None and n_update == 1, "R06.5", par.qualname, "results combined only via update()", fn_where(par, loop),
                  "each worker result is merged by exactly one master.update(result); no index- or order-dependent use",
                  "a worker result is used other than through update(): %s" % (norm(bad_use) if bad_use is not None else "no update call"))
        # settings agreement worker <-> master
        winit = index.function(ST + ".TreeAnalysisWorker.__init__")
        wcall = [c for c in calls_in(winit.node) if call_name(c) == "TreeArray"]
        mcall = [c for c in calls_in(par.node) if call_name(c) == "TreeArray"]
        launch_call = [c for c in calls_in(par.node) if call_name(c) == "TreeAnalysisWorker"]
        if not (wcall and mcall and launch_call):
            raise AnalysisError("R06.5: TreeArray construction sites in sumtrees not found")
        wcall, mcall, launch_call = wcall[0], mcall[0], launch_call[0]
        field_src = {}
        for n in walk_no_nested(winit.node):
            if isinstance(n, ast.Assign) and len(n.targets) == 1 and is_self_attr(n.targets[0]) and isinstance(n.value, ast.Name):
                field_src[n.targets[0].attr] = n.value.id
        for k in COMPARED_SETTINGS:
            mv = get_kwarg(mcall, k)
            wv = get_kwarg(wcall, k)
            chain = None
            if wv is not None and is_self_attr(wv) and wv.attr in field_src:
                lv = get_kwarg(launch_call, field_src[wv.attr])
                chain = norm(lv) if lv is not None else None
            ok = mv is not None and chain is not None and norm(mv) == chain
            rep.check(ok, "R06.5", par.qualname, "setting %s worker/master agreement" % k, fn_where(par, mcall),
                      "TreeArray(%s=...) : master gets `%s`, workers get `%s`" % (k, norm(mv) if mv is not None else None, chain),
                      "master and worker TreeArrays are constructed with different sources for `%s` (master `%s`, worker `%s`): update() compares this setting and the merge is rejected or silently inconsistent"
                      % (k, norm(mv) if mv is not None else None, chain))
        # the worker's counting array and the serial route's counting array are built with the same options
        ser = index.function(ST + ".TreeProcessor.serial_analyze_trees")
        scall = [c for c in calls_in(ser.node) if call_name(c) == "TreeArray"]
        if not scall:
            raise AnalysisError("R06.5: TreeArray construction in serial_analyze_trees not found")
        skw = {k.arg: norm(k.value) for k in scall[0].keywords if k.arg and k.arg != "taxon_namespace"}
        wkw = {}
        for k in wcall.keywords:
            if not k.arg or k.arg == "taxon_namespace":
                continue
            v = k.value
            src = None
            if is_self_attr(v) and v.attr in field_src:
                lv = get_kwarg(launch_call, field_src[v.attr])
                src = norm(lv) if lv is not None else None
            wkw[k.arg] = src if src is not None else norm(v)
        for k in sorted(set(skw) | set(wkw)):
            rep.check(skw.get(k) == wkw.get(k), "R06.5", winit.qualname, "option %s: serial `%s` / worker `%s`" % (k, skw.get(k), wkw.get(k)), fn_where(winit, wcall),
                      "TreeArray(%s=%s) on the serial route and in the workers" % (k, skw.get(k)),
                      "the serial route builds its TreeArray with %s=%s, the workers with %s: trees are then counted under different settings depending on the number of processes (e.g. tip ages ignored in the workers only, so node ages and the ultrametricity check differ between a serial and a parallel run)" % (k, skw.get(k), wkw.get(k)))
        # labels handed to workers preserve namespace order
        tlv = get_kwarg(launch_call, "taxon_labels")
        tl = [n for n in walk_no_nested(par.node) if isinstance(n, ast.Assign) and tlv is not None and norm(n.targets[0]) == norm(tlv)]
        ok = bool(tl) and isinstance(tl[0].value, ast.ListComp) and len(tl[0].value.generators) == 1 \
            and norm(tl[0].value.generators[0].iter) == norm(get_kwarg(mcall, "taxon_namespace") or ast.Constant(None)) and not tl[0].value.generators[0].ifs
        rep.check(ok, "R06.5", par.qualname, "taxon_labels order", fn_where(par, tl[0] if tl else None),
                  "worker namespaces are rebuilt from the master's labels in the master's order (same label -> same bit)",
                  "taxon_labels handed to the workers is not the master's namespace in iteration order: split bitmasks from different workers would not be comparable")

    # ---- R06.8 worker and master agree on the bit of every taxon
    with rep.section("R06.8"):
        rep.rule("R06.8", "worker and master give every taxon the same bit: the label list handed to the workers is the master namespace in iteration order, each worker builds its namespace from exactly that list, and nothing in sumtrees removes a taxon from a namespace (bits follow accession order, so a gap in the master would not be reproduced by the worker)")
        par = index.function(ST + ".TreeProcessor.parallel_analyze_trees")
        wini = index.function(ST + ".TreeAnalysisWorker.__init__")
        n8 = 0
        # (a) master side: taxon_labels = [t.label for t in <namespace>] passed unchanged
        wc = [c for c in calls_in(par.node) if call_name(c) == "TreeAnalysisWorker"]
        if len(wc) != 1 or get_kwarg(wc[0], "taxon_labels") is None:
            raise AnalysisError("R06.8: worker construction in parallel_analyze_trees not recognised")
        arg = get_kwarg(wc[0], "taxon_labels")
        defs = [a for a in walk_no_nested(par.node) if isinstance(a, ast.Assign) and isinstance(arg, ast.Name) and norm(a.targets[0]) == arg.id]
        mta = [c for c in calls_in(par.node) if call_name(c) == "TreeArray"]
        master_ns = norm(get_kwarg(mta[0], "taxon_namespace")) if mta and get_kwarg(mta[0], "taxon_namespace") is not None else None
        ok_a = False
        if len(defs) == 1 and isinstance(defs[0].value, ast.ListComp) and len(defs[0].value.generators) == 1:
            lc = defs[0].value
            gen = lc.generators[0]
            ok_a = (not gen.ifs) and norm(gen.iter) == master_ns and isinstance(lc.elt, ast.Attribute) and lc.elt.attr == "label" and norm(lc.elt.value) == norm(gen.target)
        n8 += 1
        rep.check(ok_a, "R06.8", par.qualname, "worker label list is not the master namespace in order", fn_where(par, defs[0] if defs else wc[0]), "workers get [t.label for t in %s], the namespace of the master array" % master_ns,
                  "parallel_analyze_trees hands the workers `%s` as their taxon labels while the master array counts splits over `%s`: the workers number their taxa from that list, so unless it is exactly the master namespace in iteration order (unfiltered, unsorted) the split bitmasks that come back denote other taxa and the merged counts are credited to the wrong splits - the parallel summary differs from the serial one" % (norm(defs[0].value)[:70] if defs else norm(arg), master_ns))
        # (b) worker side: namespace built from exactly that list
        wparam = "taxon_labels"
        st = [a for a in walk_no_nested(wini.node) if isinstance(a, ast.Assign) and norm(a.targets[0]) == "self.taxon_namespace"]
        if len(st) != 1:
            raise AnalysisError("R06.8: worker namespace construction not recognised")
        v = st[0].value
        src_ok = isinstance(v, ast.Call) and call_name(v) == "TaxonNamespace" and len(v.args) == 1 and not [k for k in v.keywords if k.arg not in ("label", "is_mutable")]
        if src_ok:
            a0 = v.args[0]
            if isinstance(a0, ast.Attribute) and norm(a0.value) == "self":
                back = [a for a in walk_no_nested(wini.node) if isinstance(a, ast.Assign) and norm(a.targets[0]) == norm(a0)]
                src_ok = len(back) == 1 and norm(back[0].value) == wparam
            else:
                src_ok = norm(a0) == wparam
        n8 += 1
        rep.check(src_ok, "R06.8", wini.qualname, "worker namespace not built from the label list as given", fn_where(wini, st[0]), "TreeAnalysisWorker builds TaxonNamespace(taxon_labels) from the list as given",
                  "TreeAnalysisWorker.__init__ builds its namespace as `%s`: only a namespace filled from the master's label list in the order given assigns every taxon the bit it has in the master; any reordering, filtering or extra taxon shifts the bits and the merged split counts are credited to the wrong splits" % norm(v)[:80])
        # worker trees are read into that namespace
        # (c) nothing in sumtrees shrinks a namespace
        SHRINK = ("remove_taxon", "remove_taxon_label", "discard_taxon_label", "discard_taxon_labels", "remove_taxon_labels", "discard_taxa", "remove_taxa")
        for fi in index.functions_in_module(ST):
            for c in calls_in(fi.node, nested=True):
                if call_name(c) in SHRINK or (call_name(c) == "clear" and "namespace" in norm(c.func)):
                    rep.check(False, "R06.8", fi.qualname, "sumtrees removes a taxon from a namespace: " + norm(c)[:50], fn_where(fi, c), "",
                              "%s calls `%s`: a namespace that has lost a taxon keeps a gap in its bit assignment, which the workers - who rebuild their namespaces from the label list - do not have; every split involving a later taxon then comes back from the workers under another bitmask than the serial run uses" % (fi.qualname, norm(c)[:60]))
            n8 += 1
        rep.floor("R06.8", "bit-agreement obligations", 10, n8)


    # ---- R06.9 summaries of the merged multisets do not depend on arrival order
    with rep.section("R06.9"):
        rep.rule("R06.9", "what is computed from the per-split multisets is order-free: order statistics are read from the sorted sample (C05 R05.11)")
        rep.floor("R06.9", "borrowed obligations", 1, borrow(index, rep, "C05", {"R05.11"}, "R06.9"))

    # ---- R06.10 a setting lives in two places, and changes in both
    with rep.section("R06.10"):
        rep.rule("R06.10", "a setting that both a TreeArray and its SplitDistribution hold changes in both: a TreeArray method that re-assigns ignore_edge_lengths / ignore_node_ages / use_tree_weights on self (an empty array adopting the settings of the array merged into it) assigns the same attribute of self._split_distribution on the same path - the counting is done by the distribution")
        ta = index.klass(TA)
        sd = index.klass(SD)
        def settings(k):
            init = k.methods["__init__"]
            return {w.attr for w in writes_in(init.node) if w.kind == "store" and w.base is not None and norm(w.base) == "self" and w.value is not None and isinstance(w.value, ast.Name) and w.value.id in init.params}
        shared = settings(ta) & settings(sd)
        rep.floor("R06.10", "settings held by both classes", 3, len(shared))
        nst = 0
        for m in ta.methods.values():
            if m.name == "__init__":
                continue
            g = None
            for w in writes_in(m.node):
                if not (w.kind == "store" and w.base is not None and norm(w.base) == "self" and w.attr in shared):
                    continue
                nst += 1
                g = g or cfg_of(m)
                ok = all(g.must_pass(nd, lambda x, a=w.attr: x.kind == "stmt" and isinstance(x.ast, ast.Assign) and any(norm(t) in ("self._split_distribution." + a, "self.split_distribution." + a) for t in x.ast.targets))[0] or
                         g.dominated_by(nd, lambda x, a=w.attr: x.kind == "stmt" and isinstance(x.ast, ast.Assign) and any(norm(t) in ("self._split_distribution." + a, "self.split_distribution." + a) for t in x.ast.targets), follow_exc=False)
                         for nd in g.nodes_of_stmt(w.stmt))
                rep.check(ok, "R06.10", m.qualname, "%s changed on the array only" % w.attr, fn_where(m, w.stmt), "%s sets %s on the array and on its distribution" % (m.name, w.attr),
                          "%s assigns `self.%s` without assigning the same attribute of self._split_distribution, which is the object that weights and counts the splits: an empty array that adopts the settings of the first sub-collection merged into it (use_tree_weights=False, say) shows the new setting on itself while its distribution keeps counting under the old one - trees added afterwards are weighted although the array says they are not, and the frequencies of the merged sample are wrong" % (m.qualname, w.attr))
        rep.floor("R06.10", "re-assignments of shared settings in TreeArray", 3, nst)

    # ---- R06.11 a tree is refused before anything of it is counted
    with rep.section("R06.11"):
        rep.rule("R06.11", "a tree is refused before anything of it is counted: in TreeArray.add_tree the rooting validation (which raises for a tree of the other rooting state) dominates every statement that adds to the split distribution or to the per-tree lists - a refused tree leaves no trace in the counts")
        at = index.function(TA + ".add_tree")
        g = cfg_of(at)
        val = [nd for nd in g.nodes if any(call_name(c) == "validate_rooting" for c in node_calls(nd))]
        if len(val) != 1:
            raise AnalysisError("R06.11: validate_rooting call in TreeArray.add_tree not recognised")
        acc = [nd for nd in g.nodes if any(call_name(c) in ("count_splits_on_tree",) for c in node_calls(nd))]
        acc += [nd for w in writes_in(at.node) if w.kind == "mutcall" and w.base is not None and norm(w.base) == "self" for nd in g.nodes_of_stmt(w.stmt)]
        if not acc:
            raise AnalysisError("R06.11: accumulation statements of TreeArray.add_tree not recognised")
        for nd in acc:
            ok = g.dominated_by(nd, lambda x: x is val[0], follow_exc=False)
            rep.check(ok, "R06.11", at.qualname, "counted before validated: %s" % norm_stmt(nd.stmt)[:50], fn_where(at, nd.stmt), "add_tree: `%s` runs after validate_rooting" % norm_stmt(nd.stmt)[:40],
                      "TreeArray.add_tree executes `%s` on a path that has not passed validate_rooting: a tree of the other rooting state is refused with MixedRootingError only after its splits, weight and tree count have gone into the distribution - a caller that catches the error and carries on gets frequencies that include the refused tree" % norm_stmt(nd.stmt)[:60])
        rep.floor("R06.11", "accumulating statements in add_tree", 3, len(acc))

    # ---- R06.12 summaries follow the collection under every interleaving
    with rep.section("R06.12"):
        rep.rule("R06.12", "per-split summaries are recomputed when the collection has grown, whatever was queried in between: the two summary tables share one staleness stamp, so neither getter nor calculator may bring that stamp up to date on its own (C05 R05.1)")
        rep.floor("R06.12", "borrowed obligations", 2, borrow(index, rep, "C05", {"R05.1"}, "R06.12"))

    # ---- R06.13 a source without trees is not the end of the run
    with rep.section("R06.13"):
        rep.rule("R06.13", "a source without trees is not the end of the parallel run: a helper of sumtrees that returns from inside a loop and otherwise falls off its end answers None for an empty source, so where the driver uses such a result (iterates it, reads an attribute) the use is dominated by a test of the value - the serial route never asks the question, so an empty first file must not make `-m N` fail where the serial run succeeds")
        SM = "dendropy.application.sumtrees"
        maybe_none = set()
        for f in index.functions_in_module(SM):
            g = cfg_of(f)
            rets = [n for n in g.nodes if isinstance(n.ast, ast.Return) and n.ast.value is not None and not is_none(n.ast.value)]
            if not rets:
                continue
            # a normal exit that is not one of the explicit value returns
            falls = any(any(t is g.exit and lab != "e" for lab, t in n.succ) and not isinstance(n.ast, (ast.Return, ast.Raise)) for n in g.nodes if n in g.reach([g.entry], follow_exc=False))
            if falls:
                maybe_none.add(f.name)
        n13 = 0
        for f in index.functions_in_module(SM):
            g = None
            for st in walk_no_nested(f.node):
                if isinstance(st, ast.Assign) and len(st.targets) == 1 and isinstance(st.targets[0], ast.Name) and isinstance(st.value, ast.Call) and call_name(st.value) in maybe_none:
                    x = st.targets[0].id
                    g = g or cfg_of(f)
                    d = node_of_ast(g, st)
                    n13 += 1

                    def tested(n, x=x):
                        if n.kind != "test":
                            return False
                        t = n.ast
                        return (isinstance(t, ast.Name) and t.id == x) or (isinstance(t, ast.Compare) and len(t.ops) == 1 and isinstance(t.ops[0], (ast.Is, ast.IsNot)) and norm(t.left) == x and is_none(t.comparators[0]))

                    def uses(n, x=x):
                        for e in node_exprs(n) + ([n.ast] if n.kind == "forinit" else []):
                            if e is None:
                                continue
                            for y in ast.walk(e):
                                if isinstance(y, ast.Attribute) and isinstance(y.value, ast.Name) and y.value.id == x:
                                    return True
                                if isinstance(y, ast.Subscript) and isinstance(y.value, ast.Name) and y.value.id == x:
                                    return True
                                if isinstance(y, ast.comprehension) and isinstance(y.iter, ast.Name) and y.iter.id == x:
                                    return True
                            if n.kind == "forinit" and isinstance(n.ast, ast.Name) and n.ast.id == x:
                                return True
                        return False

                    def rebound(n, x=x):
                        return n is not d and isinstance(n.ast, ast.Assign) and any(isinstance(t, ast.Name) and t.id == x for t in n.ast.targets) and not (isinstance(n.ast.value, ast.Call) and call_name(n.ast.value) in maybe_none)
                    w = g.can_reach(d, uses, avoid=lambda n: tested(n) or rebound(n), follow_exc=False) if d is not None else None
                    rep.check(w is None, "R06.13", f.qualname, "result of `%s` used without a test for None" % call_name(st.value), fn_where(f, w.ast if w is not None and w.ast is not None else st), "%s: the result of %s is tested before use" % (f.name, call_name(st.value)),
                              "%s uses the result of `%s` (`%s`) without testing it, but that helper answers None when its source holds no tree (it returns from inside its loop and otherwise falls off the end): with an empty first input file the multiprocessing route dies with \"'NoneType' object is not iterable\" while the serial route summarises the remaining files" % (f.qualname, call_name(st.value), norm_stmt(st)[:60]))
        rep.floor("R06.13", "uses of helpers that may answer None", 1, n13)

    # ---- R06.16 partial results are merged whatever namespace object they carry
    with rep.section("R06.16"):
        rep.rule("R06.16", "partial results are merged whatever namespace OBJECT they carry: TreeArray.update - the method sumtrees collates the workers' arrays with, which arrive unpickled with a copy of the namespace - does not DEMAND identity of the two namespaces (an assert, or a test with a raising branch), directly or through an own method it calls (extend() does assert it, so update() may not be written in terms of extend())")
        up = index.function(TA + ".update")
        seen_q, work = set(), [(up, 0)]
        bad = None
        while work:
            f, d = work.pop()
            if f.qualname in seen_q:
                continue
            seen_q.add(f.qualname)
            gq = cfg_of(f)
            for x in ast.walk(f.node):
                if isinstance(x, ast.Compare) and len(x.ops) == 1 and isinstance(x.ops[0], (ast.Is, ast.IsNot)) and "taxon_namespace" in norm(x.left) and "taxon_namespace" in norm(x.comparators[0]):
                    # a DEMAND: asserted, or a test one of whose branches raises (a test that merely chooses between
                    # 'same namespace' and 'migrate first' is the opposite of a demand)
                    demanded = any(isinstance(a, ast.Assert) and any(y is x for y in ast.walk(a.test)) for a in ast.walk(f.node))
                    for tn in gq.nodes:
                        if tn.kind == "test" and any(y is x for y in ast.walk(tn.ast)) and (raises_in_branch(gq, tn, "t") is not None or raises_in_branch(gq, tn, "f") is not None):
                            demanded = True
                    if demanded:
                        bad = bad or (f, x)
            if d < 2:
                for c in calls_in(f.node):
                    if isinstance(c.func, ast.Attribute) and norm(c.func.value) == "self":
                        grade, cands = index.resolve_call(c, f)
                        cs = [k for k in cands if hasattr(k, "node") and isinstance(k.node, ast.FunctionDef)]
                        if grade == "self" and len(cs) == 1 and cs[0].cls is not None and cs[0].cls.qualname == TA:
                            work.append((cs[0], d + 1))
        rep.check(bad is None, "R06.16", up.qualname, "namespace identity demanded on the merge path", fn_where(bad[0], bad[1]) if bad else fn_where(up), "TreeArray.update merges without demanding namespace identity (%d methods examined)" % len(seen_q),
                  "TreeArray.update reaches `%s` (in %s): the arrays the sumtrees master collects from its workers come through a multiprocessing queue and carry their own unpickled copy of the namespace, so the identity test fails for every non-empty partial result - `sumtrees -m N` dies where the serial run gives the summary" % (norm(bad[1]) if bad else "", bad[0].qualname if bad else ""))


def _root_of(e):
    while isinstance(e, (ast.Attribute, ast.Subscript, ast.Call)):
        e = e.func if isinstance(e, ast.Call) else e.value
    return e.id if isinstance(e, ast.Name) else None


def _inside_loop_of(loop, stmt):
    return any(any(x is stmt for x in ast.walk(s_)) for s_ in loop.body)


def _inside_loop(fn_node, stmt):
    for l in ast.walk(fn_node):
        if isinstance(l, (ast.While, ast.For)):
            for s in l.body:
                if any(x is stmt for x in ast.walk(s)):
                    return True
    return False

