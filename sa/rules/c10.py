"""C10 Taxon namespaces keep a stable one-to-one taxon/bit map and exact label lookups."""
import ast

from .common import *  # noqa

TM = "dendropy.datamodel.taxonmodel"
TNS = TM + ".TaxonNamespace"
INDEX_STATE = ("_taxon_accession_index_map", "_accession_index_taxon_map", "_current_accession_count", "_taxon_bitmask_map")
INDEX_WRITERS = {
    "__init__": "constructs the four fields empty / zero",
    "add_taxon": "assigns the next index to a new member",
    "remove_taxon": "releases the removed member's entries",
    "clear": "empties the maps (the counter is kept)",
    "taxon_bitmask": "memoises 1 << index",
}
TAXA_GROWERS = {"add_taxon", "__init__", "__deepcopy__"}


def remove_release_rule(index, rep, rid):
    rm = index.function(TNS + ".remove_taxon")
    cfg = cfg_of(rm)
    need = {
        "_taxa": ("remove", "taxon"),
        "_taxon_accession_index_map": ("pop", "taxon"),
        "_taxon_bitmask_map": ("pop", "taxon"),
    }
    for attr, (meth, arg) in need.items():
        def hit(n, attr=attr, meth=meth, arg=arg):
            return any(isinstance(c.func, ast.Attribute) and c.func.attr in (meth, "__delitem__", "discard") and norm(c.func.value) == "self." + attr
                       and c.args and norm(c.args[0]) == arg for c in node_calls(n)) or \
                (n.kind == "stmt" and isinstance(n.ast, ast.Delete) and any(isinstance(t, ast.Subscript) and norm(t.value) == "self." + attr and norm(t.slice) == arg for t in n.ast.targets))
        # paths that raise before doing anything are fine: only normal exits count
        okp, wit = cfg.must_pass(cfg.entry, hit)
        rep.check(okp, rid, rm.qualname, "release of " + attr, fn_where(rm),
                  "remove_taxon releases the taxon's entry in %s on every normal path" % attr,
                  "remove_taxon can return without removing the taxon from `%s`: a removed taxon keeps its bit / stays a member" % attr)
    pops = [c for c in calls_in(rm.node) if isinstance(c.func, ast.Attribute) and c.func.attr in ("pop", "remove") and "self._" in norm(c.func.value)]
    idxvars = {norm(n.targets[0]) for n in walk_no_nested(rm.node) if isinstance(n, ast.Assign) and isinstance(n.value, ast.Call)
               and call_name(n.value) == "pop" and n.value.args and norm(n.value.args[0]) == "taxon"}
    for c in pops:
        a0 = norm(c.args[0]) if c.args else None
        ok = a0 == "taxon" or a0 in idxvars
        rep.check(ok, rid, rm.qualname, norm(c), fn_where(rm, c), "remove_taxon touches only the removed taxon's entries: %s" % norm(c),
                  "remove_taxon removes the entry keyed by `%s`, which is not the removed taxon or its own index: another member loses its bit" % a0)
    revpop = [c for c in pops if norm(c.func.value) == "self._accession_index_taxon_map"]
    rep.check(bool(revpop), rid, rm.qualname, "release of _accession_index_taxon_map", fn_where(rm),
              "remove_taxon releases the index -> taxon entry", "remove_taxon never removes the index -> taxon entry: renderings still name the removed taxon")



def derived_cache_rule(index, rep, rid, cls_q):
    """Lazily computed caches of a class (`if self.X is None: self.X = f(self.Y)`) must be dropped by
    every function that stores the source field Y on instances of the class - including functions the
    class INHERITS (an override that is removed silently re-exposes the base class's setter)."""
    ci = index.klass(cls_q)
    caches = {}     # cache field -> set(source fields)
    for m in ci.methods.values():
        for iff in walk_no_nested(m.node):
            if isinstance(iff, ast.If):
                cp = compare_parts(iff.test)
                if cp and cp[1] == "Is" and is_none(cp[2]) and isinstance(cp[0], ast.Attribute) and norm(cp[0].value) == "self":
                    x = cp[0].attr
                    for st in iff.body:
                        if isinstance(st, ast.Assign) and norm(st.targets[0]) == "self." + x:
                            srcs = {a.attr for a in ast.walk(st.value) if isinstance(a, ast.Attribute) and norm(a.value) == "self" and a.attr != x}
                            if srcs:
                                caches.setdefault(x, set()).update(srcs)
    n = 0
    # functions in effect for instances of the class: own and inherited methods (by name through the MRO),
    # and the accessor functions of the properties in effect (bound where the property was created)
    eff = {}
    for c in index.mro(ci):
        for k, v in c.methods.items():
            eff.setdefault(k, v)
    prop_seen = set()
    for c in index.mro(ci):
        for pname, acc in c.properties.items():
            if pname in prop_seen:
                continue
            prop_seen.add(pname)
            for a in acc:
                if a and a in c.methods:
                    eff[("prop", pname, a)] = c.methods[a]
        # a class-level name that shadows a base property
        for k in c.class_attrs:
            prop_seen.add(k)
    for x, srcs in sorted(caches.items()):
        done = set()
        for key, f in sorted(eff.items(), key=lambda kv: str(kv[0])):
            if f.name in ("__init__", "__deepcopy__", "__copy__", "__setstate__") or f.qualname in done:
                continue
            done.add(f.qualname)
            ws = [w for w in writes_in(f.node) if w.kind in ("store", "augstore") and w.base is not None and norm(w.base) == "self" and w.attr in srcs]
            for w in ws:
                n += 1
                cfg = cfg_of(f)
                wn = stmt_nodes(cfg, w.stmt)
                resets = lambda nd: nd.kind == "stmt" and isinstance(nd.ast, ast.Assign) and norm(nd.ast.targets[0]) == "self." + x
                ok = bool(wn) and (cfg.must_pass(wn[0], resets)[0] or cfg.dominated_by(wn[0], resets, follow_exc=False))
                rep.check(ok, rid, f.qualname, "store to self.%s without dropping the cache self.%s" % (w.attr, x), fn_where(f, w.stmt),
                          "%s (in effect for %s): the store to self.%s is accompanied by self.%s = None" % (f.qualname.rsplit(".", 2)[-2] + "." + f.name, ci.name, w.attr, x),
                          "%s - the function in effect for %s instances%s - stores self.%s without resetting self.%s, which %s computes lazily from it: after a relabel the cached value still answers for the old label, so case-insensitive lookup, require_taxon and label-based unification find the taxon under its old label and miss it under the new one"
                          % (f.qualname, ci.name, "" if f.cls is ci else " (inherited from %s: %s has no override in effect)" % (f.cls.name, ci.name), w.attr, x, ci.name))
    return n, caches


def folding_rule(index, rep, rid):
    folds = {}
    fold_sites = [TM + ".Taxon._get_lower_cased_label@", TNS + "._lookup_label", "dendropy.dataio.nexusreader.NexusReader._parse_taxlabels_statement"]
    # the caseless dictionaries that hold label -> taxon maps (label_taxon_map, the NEXUS symbol mapper) fold with the same method
    caseless = [q for q in index.functions if q.startswith("dendropy.utility.container.CaseInsensitiveDict.") or q.startswith("dendropy.utility.container.OrderedCaselessDict.")]
    for q in list(index.functions):
        if q.startswith(TM + ".Taxon._get_lower_cased_label") or q in fold_sites or q in caseless:
            fi = index.functions[q]
            for c in calls_in(fi.node):
                if isinstance(c.func, ast.Attribute) and c.func.attr in ("lower", "casefold", "upper") and not c.args:
                    folds.setdefault(c.func.attr, []).append(fi.qualname.rsplit(".", 1)[1])
    rep.floor(rid, "label-folding call sites", 3, sum(len(v) for v in folds.values()))
    rep.check(len(folds) == 1, rid, TNS + "._lookup_label", "label folding methods %s" % {k: sorted(set(v)) for k, v in folds.items()}, "src/dendropy/datamodel/taxonmodel.py:1",
              "labels are folded with the single method %s at every site" % sorted(folds),
              "labels are case-folded with different methods at different sites (%s): the cached folded label and the folded query disagree for characters on which the methods differ, so a label no longer matches itself and duplicates are created" % {k: sorted(set(v)) for k, v in folds.items()})

    # every access of a caseless map's storage with a caller-supplied key goes through the fold
    nacc = 0
    fold = sorted(folds)[0] if folds else "lower"
    for q in caseless:
        fi = index.functions[q]
        params = [p_ for p_ in fi.params if p_ != "self"]
        if not params:
            continue

        def folded(e):
            return isinstance(e, ast.Call) and isinstance(e.func, ast.Attribute) and e.func.attr in ("lower", "casefold") and isinstance(e.func.value, ast.Name)

        def bare(e):
            return isinstance(e, ast.Name) and e.id in params[:1]
        sites = []
        for n in walk_no_nested(fi.node):
            if isinstance(n, ast.Subscript) and norm(n.value) == "self._store":
                sites.append((n, n.slice))
            elif isinstance(n, ast.Compare) and len(n.ops) == 1 and isinstance(n.ops[0], (ast.In, ast.NotIn)) and norm(n.comparators[0]) in ("self._store", "self"):
                sites.append((n, n.left))
            elif isinstance(n, ast.Call) and isinstance(n.func, ast.Attribute) and n.args and (norm(n.func.value) == "self._store" or norm(n.func.value).startswith("super(")) and n.func.attr in ("get", "pop", "setdefault", "__getitem__", "__setitem__", "__delitem__", "__contains__"):
                sites.append((n, n.args[0]))
        for n, k in sites:
            if not (bare(k) or folded(k)):
                continue
            nacc += 1
            rep.check(folded(k), rid, fi.qualname, "storage accessed with the unfolded key: " + norm(n)[:50], fn_where(fi, n), "%s.%s folds the key before touching the storage" % (fi.cls.name if fi.cls else "?", fi.name),
                      "%s reaches the map's storage with the caller's key as given (`%s`): the storage is keyed by folded labels, so a probe that differs from its own folded form (any upper-case letter) is reported absent although the label is a member - label lookups through label_taxon_map() and the NEXUS symbol mapper then disagree with the namespace" % (fi.qualname, norm(n)[:60]))
    rep.floor(rid, "keyed storage accesses in the caseless maps", 8, nacc)


def index_state_rules(index, rep, remap):
    """R10.1-R10.3 (optionally reported under other rule ids, for C01)."""
    R = lambda r: remap.get(r, r)
    tns = index.klass(TNS)
    # ---- R10.1 / R10.2
    nwr = 0
    for fi in list(index.functions.values()):
        for w in writes_in(fi.node):
            if w.attr not in INDEX_STATE:
                continue
            nwr += 1
            in_class = fi.cls is not None and index.is_subclass(fi.cls, TNS) and isinstance(w.base, ast.Name) and w.base.id == "self"
            ok = in_class and fi.name in INDEX_WRITERS
            rep.check(ok, R("R10.1"), fi.qualname, "%s %s.%s" % (w.kind, w.base_text, w.attr), fn_where(fi, w.stmt),
                      "%s writes %s (%s)" % (fi.qualname, w.attr, INDEX_WRITERS.get(fi.name, "not an index-maintaining function")),
                      "%s writes the namespace's index state `%s` (%s): only %s may; a rebuilt or re-assigned index changes the bit of existing members"
                      % (fi.qualname, w.attr, norm_stmt(w.stmt), sorted(INDEX_WRITERS)))
            if w.attr == "_current_accession_count" and in_class:
                v = w.value
                if w.kind == "store":
                    ok2 = isinstance(v, ast.Constant) and v.value == 0 and fi.name == "__init__"
                elif w.kind == "augstore":
                    ok2 = isinstance(w.stmt.op, ast.Add) and isinstance(v, ast.Constant) and isinstance(v.value, int) and v.value > 0 and fi.name == "add_taxon"
                else:
                    ok2 = False
                rep.check(ok2, R("R10.2"), fi.qualname, norm_stmt(w.stmt), fn_where(fi, w.stmt), "counter write `%s` in %s" % (norm_stmt(w.stmt), fi.name),
                          "`%s` in %s: the accession counter may only be set to 0 by the constructor and incremented by add_taxon; decrementing or resetting it re-issues a bit that a removed (or still present) taxon held" % (norm_stmt(w.stmt), fi.qualname))
        # dynamic writes
        for c in calls_in(fi.node):
            if isinstance(c.func, ast.Name) and c.func.id == "setattr" and len(c.args) >= 2 and isinstance(c.args[1], ast.Constant) and c.args[1].value in INDEX_STATE:
                rep.check(False, R("R10.1"), fi.qualname, norm(c), fn_where(fi, c), "setattr on index state", "setattr writes index state outside the maintaining functions")
    rep.floor(R("R10.1"), "writes to the accession-index state", 12, nwr)

    # ---- R10.3
    add = index.function(TNS + ".add_taxon")
    cfg = cfg_of(add)
    apps = [n for n in cfg.nodes if any(call_name(c) == "append" and norm(c.func.value) == "self._taxa" for c in node_calls(n))]
    if len(apps) != 1:
        raise AnalysisError("R10.3: add_taxon append site not recognised")
    app = apps[0]

    def mut_guard(n):
        return n.kind == "test" and norm(n.ast) == "self.is_mutable" and raises_in_branch(cfg, n, "f") is not None
    rep.check(cfg.dominated_by(app, mut_guard), R("R10.3"), add.qualname, "is_mutable guard before append", fn_where(add, app.stmt),
              "add_taxon: `if not self.is_mutable: raise` dominates self._taxa.append",
              "add_taxon can append to the member list without passing the is_mutable test: an immutable namespace gains members")
    stores = [w for w in writes_in(add.node) if w.kind == "substore" and w.attr in ("_accession_index_taxon_map", "_taxon_accession_index_map")]
    fwd = [w for w in stores if w.attr == "_accession_index_taxon_map"]
    rev = [w for w in stores if w.attr == "_taxon_accession_index_map"]
    ok = len(fwd) == 1 and len(rev) == 1
    idx_expr = None
    if ok:
        idx_expr = norm(fwd[0].node.slice)
        ok = idx_expr == norm(rev[0].value) and norm(fwd[0].value) == norm(rev[0].node.slice) and idx_expr == "self._current_accession_count"
    rep.check(ok, R("R10.3"), add.qualname, "paired index writes", fn_where(add),
              "add_taxon: index->taxon and taxon->index use the same index `%s`" % idx_expr,
              "add_taxon writes the two index maps with different index expressions (%s vs %s): bit -> taxon and taxon -> bit disagree"
              % (norm(fwd[0].node.slice) if fwd else None, norm(rev[0].value) if rev else None))
    incs = [n for n in cfg.nodes if n.kind == "stmt" and isinstance(n.ast, ast.AugAssign) and norm(n.ast.target) == "self._current_accession_count"]
    if ok and incs:
        wn = [stmt_nodes(cfg, w.stmt)[0] for w in fwd + rev]
        ids = {i.id for i in incs}
        okp = all(cfg.must_pass(x, lambda n: n.id in ids)[0] for x in wn) and \
            all(cfg.can_reach(i, lambda n, wn=wn: n in wn) is None for i in incs)
        rep.check(okp, R("R10.3"), add.qualname, "increment after both writes", fn_where(add, incs[0].stmt),
                  "add_taxon: the counter increment follows both map writes on every path",
                  "add_taxon increments the counter before/between the two map writes or not on every path: an index is skipped or issued twice")
    # members enter only via add_taxon
    ngrow = 0
    for fi in index.methods_of(TNS):
        for w in writes_in(fi.node):
            if w.attr != "_taxa" or not isinstance(w.base, ast.Name):
                continue
            grows = (w.kind == "mutcall" and w.method in ("append", "insert", "extend")) or w.kind in ("augstore", "substore") \
                or (w.kind == "store" and fi.name not in ("__init__", "__deepcopy__"))
            if not grows:
                continue
            ngrow += 1
            rep.check(fi.name in TAXA_GROWERS, R("R10.3"), fi.qualname, norm_stmt(w.stmt), fn_where(fi, w.stmt),
                      "%s adds to the member list" % fi.name,
                      "%s adds to / rebinds the member list `_taxa` without going through add_taxon: the new member has no accession index (no bit) or bypasses the immutability test" % fi.qualname)
    rep.floor(R("R10.3"), "sites that grow the member list", 2, ngrow)



def run(index, rep, tier):
    rep.rule("R10.1", "the accession-index state is written only by TaxonNamespace.{__init__, add_taxon, remove_taxon, clear, taxon_bitmask} and nowhere outside the class")
    rep.rule("R10.2", "the accession counter is only ever assigned 0 (constructor) or incremented by a positive constant in add_taxon; never decremented or reset")
    rep.rule("R10.3", "add_taxon: the mutability test dominates the append; both index maps are written with the same index expression and the increment follows both; members enter the list only through add_taxon")
    rep.rule("R10.4", "remove_taxon removes the taxon from the member list, both index maps and the bitmask memo on every normal path and touches nobody else's entries")
    rep.rule("R10.5", "sort/reverse write only the member list")
    rep.rule("R10.6", "bit -> taxon renderings go through the accession index, never through list position")
    rep.rule("R10.7", "_lookup_label returns a Taxon / a list / None depending on first_match_only; every caller consumes the shape it asked for")
    rep.rule("R10.8", "Taxon identity (hash/eq) reads no instance state, so relabelling cannot move a taxon's map entry and equal labels never share a bit")
    tns = index.klass(TNS)

    index_state_rules(index, rep, {})

    # ---- R10.1 copies carry the index state over
    with rep.section("R10.1 copies"):
        from . import c12
        c12.copy_skip_rule(index, rep, "R10.1")

    # ---- R10.4
    with rep.section("R10.4"):
        remove_release_rule(index, rep, "R10.4")
    # ---- R10.5
    with rep.section("R10.5"):
        for name in ("sort", "reverse"):
            fi = index.function(TNS + "." + name)
            ws = {w.attr for w in writes_in(fi.node) if isinstance(w.base, ast.Name) and w.base.id == "self"}
            calls = {call_name(c) for c in calls_in(fi.node) if isinstance(c.func, ast.Attribute) and isinstance(c.func.value, ast.Name) and c.func.value.id == "self"}
            ok = ws <= {"_taxa"} and not calls
            rep.check(ok, "R10.5", fi.qualname, "write set %s calls %s" % (sorted(ws), sorted(calls)), fn_where(fi),
                      "%s writes only _taxa" % name, "%s writes %s / calls %s: an order operation must not touch anything but the member list" % (fi.qualname, sorted(ws - {"_taxa"}), sorted(calls)))

    # ---- R10.6
    with rep.section("R10.6"):
        nbit = 0
        for fi in list(index.functions.values()):
            for loop in walk_no_nested(fi.node):
                if not isinstance(loop, (ast.While, ast.For)):
                    continue
                has_and1 = any(isinstance(n, ast.BinOp) and isinstance(n.op, ast.BitAnd) and isinstance(n.right, ast.Constant) and n.right.value == 1 for n in ast.walk(loop))
                has_shift = any((isinstance(n, ast.BinOp) and isinstance(n.op, ast.RShift)) or (isinstance(n, ast.AugAssign) and isinstance(n.op, ast.RShift)) for n in ast.walk(loop))
                if not (has_and1 and has_shift):
                    continue
                counters = {norm(n.target) for n in ast.walk(loop) if isinstance(n, ast.AugAssign) and isinstance(n.op, ast.Add) and const_value(n.value) == 1}
                if isinstance(loop, ast.For):
                    counters |= {x.id for x in ast.walk(loop.target) if isinstance(x, ast.Name)}
                for n in ast.walk(loop):
                    if isinstance(n, ast.Subscript) and isinstance(n.ctx, ast.Load) and norm(n.slice) in counters:
                        nbit += 1
                        ok = norm(n.value).endswith("_accession_index_taxon_map")
                        rep.check(ok, "R10.6", fi.qualname, "bit position indexes " + norm(n.value), fn_where(fi, n),
                                  "%s: bit i selects %s[i]" % (fi.qualname, norm(n.value)),
                                  "%s walks a bitmask bit by bit and picks the item for bit i as `%s[i]` (list position), not through the accession index: after a removal, sort or reverse the rendering names the wrong taxa"
                                  % (fi.qualname, norm(n.value)))
        rep.floor("R10.6", "bit-position lookups", 1, nbit)
        # namespace-level renderers delegate
        for q, callee in ((TNS + ".bitmask_as_newick_string", "bitmask_as_newick_string"), (TNS + ".split_as_newick_string", "bitmask_as_newick_string"),
                          ("dendropy.datamodel.treemodel._bipartition.Bipartition.leafset_taxa", "bitmask_taxa_list")):
            fi = index.function(q)
            ok = any(call_name(c) == callee for c in calls_in(fi.node))
            rep.check(ok, "R10.6", fi.qualname, "delegates to " + callee, fn_where(fi), "%s delegates to %s" % (fi.name, callee),
                      "%s no longer delegates to %s" % (fi.qualname, callee))
        np_ = index.function("dendropy.dataio.nexusprocessing.bitmask_as_newick_string")
        uses_pos = [n for n in walk_no_nested(np_.node) if isinstance(n, ast.Call) and call_name(n) == "enumerate"]
        membership = [n for n in walk_no_nested(np_.node) if isinstance(n, ast.BinOp) and isinstance(n.op, ast.BitAnd)]
        rep.check(bool(membership) and not uses_pos, "R10.6", np_.qualname, "membership tests: %s" % [norm(m) for m in membership], fn_where(np_),
                  "nexusprocessing.bitmask_as_newick_string decides membership with %s" % [norm(m) for m in membership],
                  "nexusprocessing.bitmask_as_newick_string has no bitwise membership test / enumerates positions")

    # ---- R10.7
    with rep.section("R10.7"):
        lk = index.function(TNS + "._lookup_label")
        ncall = 0
        for fi in index.methods_of(TNS):
            for c in calls_in(fi.node):
                if call_name(c) != "_lookup_label":
                    continue
                ncall += 1
                fm = get_kwarg(c, "first_match_only")
                if fm is None and len(c.args) >= 3:
                    fm = c.args[2]
                # find the variable receiving the result
                pm = parent_map(fi.node)
                par = pm.get(c)
                res = norm(par.targets[0]) if isinstance(par, ast.Assign) else None
                iterated = []
                if res:
                    for n in walk_no_nested(fi.node):
                        if isinstance(n, ast.For) and norm(n.iter) == res:
                            iterated.append(n)
                if fm is None or (isinstance(fm, ast.Constant) and fm.value is False):
                    rep.ob("R10.7", fn_where(fi, c), "%s asks for a list (first_match_only false)" % fi.name, True)
                    continue
                if isinstance(fm, ast.Constant) and fm.value is True:
                    rep.check(not iterated, "R10.7", fi.qualname, "single-taxon result iterated", fn_where(fi, c),
                              "%s asks for the first match and does not iterate it" % fi.name,
                              "%s asks _lookup_label for a single Taxon (first_match_only=True) and then iterates the result" % fi.qualname)
                    continue
                # forwarded variable: every iteration must be on the flag-false side of a test of that variable
                fmv = norm(fm)
                cfg = cfg_of(fi)
                ok = True
                for loop in iterated:
                    ln = [n for n in cfg.nodes if n.kind == "forinit" and n.stmt is loop]
                    reach = cfg.reach([cfg.entry], follow_exc=False,
                                      edge_ok=lambda s, l, d: not (s.kind == "test" and norm(s.ast) == fmv and l == "f"))
                    # reachable with the flag TRUE?  then a Taxon is iterated
                    # (paths through the test's true edge are allowed only if they rebind the result)
                    for n in ln:
                        if n in reach:
                            rebinds = [x for x in cfg.nodes if x.kind == "stmt" and isinstance(x.ast, ast.Assign) and norm(x.ast.targets[0]) == res and x.ast.value is not c]
                            if rebinds:
                                rid = {x.id for x in rebinds}
                                reach2 = cfg.reach([cfg.entry], avoid=lambda m: m.id in rid, follow_exc=False,
                                                   edge_ok=lambda s, l, d: not (s.kind == "test" and norm(s.ast) == fmv and l == "f"))
                                if n not in reach2:
                                    continue
                            ok = False
                rep.check(ok, "R10.7", fi.qualname, "forwarded first_match_only, result iterated", fn_where(fi, c),
                          "%s forwards first_match_only=%s and consumes the matching shape" % (fi.name, fmv),
                          "%s forwards the caller's `%s` to _lookup_label and then iterates the result unconditionally: with %s=True the result is a single Taxon and the loop raises TypeError" % (fi.qualname, fmv, fmv))
        rep.floor("R10.7", "callers of _lookup_label", 5, ncall)
        # the callee's shape
        rets = [n for n in walk_no_nested(lk.node) if isinstance(n, ast.Return)]
        cfg = cfg_of(lk)
        for r in rets:
            v = norm(r.value) if r.value is not None else "None"
            rn = stmt_nodes(cfg, r)[0]
            under_flag = cfg.dominated_by(rn, lambda n: n.kind == "test" and norm(n.ast) == "first_match_only")
            if v == "taxon":
                ok = under_flag
            else:
                ok = True
            rep.check(ok, "R10.7", lk.qualname, "return %s" % v, fn_where(lk, r), "_lookup_label returns `%s`%s" % (v, " under first_match_only" if under_flag else ""),
                      "_lookup_label returns a single taxon outside the first_match_only test")

    # ---- R10.9 the call's setting overrides the namespace's
    with rep.section("R10.9 the call's setting overrides the namespace's"):
        rep.rule("R10.9", "case sensitivity: a function taking is_case_sensitive consults the namespace's own setting only when the argument is None; label folding uses one and the same method everywhere")
        npo = 0
        for fi in index.methods_of(TNS):
            if "is_case_sensitive" not in fi.all_params:
                continue
            # the statements that decide: top-level assignments to / tests of the argument
            prefix = [st for st in fi.node.body if isinstance(st, (ast.If, ast.Assign)) and "is_case_sensitive" in names_in(st.test if isinstance(st, ast.If) else st)]
            prefix = [st for st in prefix if not (isinstance(st, ast.Assign) and "is_case_sensitive" not in names_in(st.targets[0]))]
            if not any(isinstance(st, ast.If) for st in prefix):
                continue        # hands the argument on unchanged
            npo += 1
            sel = {}
            for arg in (True, False, None):
                for ns in (True, False):
                    d = Decision(values={"is_case_sensitive": arg, "self.is_case_sensitive": ns})
                    d.lenient = True
                    d.run(prefix)
                    last = [(st, taken) for st, taken in d.trace if "is_case_sensitive" in names_in(st.test)]
                    sel[(arg, ns)] = (last[-1][0].lineno, last[-1][1]) if last else None
            want_same = [((True, True), (True, False)), ((False, True), (False, False)), ((None, True), (True, True)), ((None, False), (False, False))]
            bad = [(a, b) for a, b in want_same if sel[a] != sel[b]] + ([((True, True), (False, True))] if sel[(True, True)] == sel[(False, True)] else [])
            rep.check(not bad, "R10.9", fi.qualname, "the call's is_case_sensitive does not override the namespace's: %s" % [(a, b) for a, b in bad][:2], fn_where(fi, prefix[0]),
                      "%s: an explicit is_case_sensitive decides; the namespace's setting is used only for None" % fi.name,
                      "%s decides case sensitivity wrongly for (argument, namespace setting) = %s: an explicit argument must override the namespace's own is_case_sensitive and None must defer to it - e.g. an explicit False on a case-sensitive namespace is ignored, so findall/get_taxa miss case variants and require_taxon creates a duplicate" % (fi.qualname, sorted(set(x for pair in bad for x in pair), key=str)))
        rep.floor("R10.9", "functions deciding case sensitivity from their argument", 2, npo)
        folding_rule(index, rep, "R10.9")
        nc, caches = derived_cache_rule(index, rep, "R10.9", TM + ".Taxon")
        rep.floor("R10.9", "stores to a field that feeds a lazily computed cache of Taxon (%s)" % sorted(caches), 1, nc)

    # ---- R10.8
    with rep.section("R10.8"):
        for q in (TM + ".Taxon.__hash__", TM + ".Taxon.__eq__"):
            fi = index.function(q)
            reads = sorted({a for a, b, _ in attr_reads(fi.node) if isinstance(b, ast.Name) and b.id in ("self", "other")})
            rep.check(not reads, "R10.8", fi.qualname, "reads %s" % reads, fn_where(fi), "%s reads no instance attribute (identity-based)" % fi.name,
                      "%s depends on instance state %s: relabelling a member changes its hash/equality, so it loses (or shares) its accession index" % (fi.qualname, reads))
        # TaxonNamespace.__contains__ goes through the index map (not label equality)
        fi = index.function(TNS + ".__contains__")
        ok = any(a in ("_taxon_accession_index_map", "_taxa") for a, b, _ in attr_reads(fi.node))
        rep.check(ok, "R10.8", fi.qualname, "membership source", fn_where(fi), "`taxon in namespace` consults the index map / member list",
                  "TaxonNamespace.__contains__ no longer consults the index map or member list")

    # ---- R10.10 one default per look-up option
    with rep.section("R10.10"):
        rep.rule("R10.10", "one default per look-up option: an option that four or more methods of the namespace classes take under the same name (is_case_sensitive, first_match_only ...) has the same default in all of them - `None` = the namespace's own setting for case sensitivity, all matches for label look-ups")
        rep.floor("R10.10", "options shared by four or more namespace methods", 2, same_default_rule(index, rep, "R10.10", [TM]))
    # ---- R10.11 clear() forgets everything
    with rep.section("R10.11"):
        rep.rule("R10.11", "clear() forgets everything a removal forgets: every per-taxon table that remove_taxon pops from is emptied by TaxonNamespace.clear (the lazily filled bitmask cache included - a taxon added again after clear() must not get its old bit back)")
        tns = index.klass(TNS)
        rm = tns.methods["remove_taxon"]
        cl = tns.methods["clear"]
        popped = {w.attr for w in writes_in(rm.node) if w.kind == "mutcall" and w.base is not None and norm(w.base) == "self" and w.method in ("pop", "remove", "discard")}
        popped |= {x.func.value.attr for x in ast.walk(rm.node) if isinstance(x, ast.Call) and isinstance(x.func, ast.Attribute) and x.func.attr in ("pop", "remove", "discard") and isinstance(x.func.value, ast.Attribute) and norm(x.func.value.value) == "self"}
        cleared = {w.attr for w in writes_in(cl.node) if w.base is not None and norm(w.base) == "self" and (w.kind == "store" or (w.kind == "mutcall" and w.method == "clear"))}
        cleared |= {x.func.value.attr for x in ast.walk(cl.node) if isinstance(x, ast.Call) and isinstance(x.func, ast.Attribute) and x.func.attr == "clear" and isinstance(x.func.value, ast.Attribute) and norm(x.func.value.value) == "self"}
        rep.floor("R10.11", "per-taxon tables popped by remove_taxon", 3, len(popped))
        for a_ in sorted(popped):
            rep.check(a_ in cleared, "R10.11", cl.qualname, "%s survives clear()" % a_, fn_where(cl), "clear() empties %s" % a_,
                      "TaxonNamespace.clear leaves `%s` as it is although remove_taxon removes a taxon's entry from it: a taxon whose bit was looked up before clear() keeps that entry, so when the same Taxon object is added again taxon_bitmask() returns the OLD bit while its accession index is new - bit and index disagree, bitmask_taxa_list raises KeyError, splits are rendered with the wrong taxa" % a_)

    # ---- R10.12 a locked namespace is re-opened only to the state it was found in
    with rep.section("R10.12"):
        rep.rule("R10.12", "a namespace the symbol mapper has locked is re-opened only to the state it was found in: every value NexusTaxonSymbolMapper stores into <namespace>.is_mutable is the constant False or the saved original state itself - never an expression computed from it (`state is not None` is True for a namespace that was immutable)")
        mp = index.klass("dendropy.dataio.nexusprocessing.NexusTaxonSymbolMapper")
        saved = {w.attr for m in mp.methods.values() for w in writes_in(m.node) if w.kind == "store" and w.base is not None and norm(w.base) == "self" and w.value is not None and isinstance(w.value, ast.Attribute) and w.value.attr == "is_mutable"}
        if len(saved) != 1:
            raise AnalysisError("R10.12: the attribute that saves the namespace's mutability was not recognised")
        sv = "self." + sorted(saved)[0]
        nst = 0
        for m in mp.methods.values():
            for a in walk_no_nested(m.node):
                if isinstance(a, ast.Assign) and isinstance(a.targets[0], ast.Attribute) and a.targets[0].attr == "is_mutable":
                    nst += 1
                    v = a.value
                    ok = (isinstance(v, ast.Constant) and v.value is False) or norm(v) == sv
                    rep.check(ok, "R10.12", m.qualname, "is_mutable set to a computed value: %s" % norm(v)[:40], fn_where(m, a), "%s: `%s`" % (m.name, norm_stmt(a)[:50]),
                              "%s sets the namespace's is_mutable to `%s`: anything other than False or the saved state `%s` itself can open a namespace that was immutable when it was handed to the reader - an unknown label in the source then adds a member to a namespace that must never gain members (and is re-locked afterwards, so nothing shows)" % (m.qualname, norm(v)[:50], sv))
        rep.floor("R10.12", "stores into is_mutable in the symbol mapper", 4, nst)
        # the readers themselves: a lock may be lifted only to the state the mapper saved, never to a constant True
        nrd = 0
        for m_ in sorted(index.modules):
            if not m_.startswith("dendropy.dataio.") or m_ == "dendropy.dataio.nexusprocessing":
                continue
            for fi in index.functions_in_module(m_):
                for a in walk_no_nested(fi.node):
                    if isinstance(a, ast.Assign) and isinstance(a.targets[0], ast.Attribute) and a.targets[0].attr == "is_mutable":
                        nrd += 1
                        v = a.value
                        ok = (isinstance(v, ast.Constant) and v.value is False) or (isinstance(v, ast.Attribute) and v.attr == sorted(saved)[0])
                        rep.check(ok, "R10.12", fi.qualname, "is_mutable set to %s by a reader" % norm(v)[:40], fn_where(fi, a), "%s: `%s`" % (fi.name, norm_stmt(a)[:50]),
                                  "%s sets the namespace's is_mutable to `%s`: the lock it overrides may be the reader's own (the symbol mapper locks every namespace while parsing) or the CALLER's - an immutable namespace handed to the reader then gains members (a TREES block with TRANSLATE and no TAXA block adds its taxa to it without error); only the state the mapper saved (`%s`) says which" % (fi.qualname, norm(v)[:40], sorted(saved)[0]))
        rep.ob("R10.12", "src/dendropy/dataio", "%d stores into is_mutable in the readers examined" % nrd, True)

    # ---- R10.13 None is not the string "None"
    with rep.section("R10.13"):
        rep.rule("R10.13", "None is not the string 'None': wherever the namespace code folds a label with str(x).lower() the statement is reachable only on a path that has excluded `x is None` - the stored side (Taxon.lower_cased_label) answers None for an unlabelled taxon, so a query folded to 'none' never finds the unlabelled member (require_taxon(None) adds another one every time) and does find a member that is labelled 'None'")
        n13 = 0
        for fi in index.functions_in_module("dendropy.datamodel.taxonmodel"):
            g = cfg_of(fi)
            for n in g.nodes:
                for e in node_exprs(n):
                    if e is None:
                        continue
                    for c in ast.walk(e):
                        if isinstance(c, ast.Call) and isinstance(c.func, ast.Attribute) and c.func.attr in ("lower", "casefold", "upper") and isinstance(c.func.value, ast.Call) and call_name(c.func.value) == "str" and c.func.value.args:
                            x = norm(c.func.value.args[0])
                            n13 += 1
                            # inside an IfExp / BoolOp that tests x against None in the same expression
                            inline = any(isinstance(p, ast.IfExp) and isinstance(p.test, ast.Compare) and norm(p.test.left) == x and is_none(p.test.comparators[0]) and isinstance(p.test.ops[0], (ast.Is, ast.IsNot))
                                         and any(q is c for q in ast.walk(p.body if isinstance(p.test.ops[0], ast.IsNot) else p.orelse)) for p in ast.walk(e))

                            def none_edge(s, l, d, x=x):
                                if s.kind == "test" and isinstance(s.ast, ast.Compare) and len(s.ast.ops) == 1 and norm(s.ast.left) == x and is_none(s.ast.comparators[0]):
                                    if isinstance(s.ast.ops[0], ast.Is):
                                        return l == "t"      # follow only the edge on which x IS None
                                    if isinstance(s.ast.ops[0], ast.IsNot):
                                        return l == "f"
                                return True
                            has_test = any(s.kind == "test" and isinstance(s.ast, ast.Compare) and len(s.ast.ops) == 1 and norm(s.ast.left) == x and is_none(s.ast.comparators[0]) and isinstance(s.ast.ops[0], (ast.Is, ast.IsNot)) for s in g.nodes)
                            guarded = inline or (has_test and n not in g.reach([g.entry], follow_exc=False, edge_ok=none_edge))
                            rep.check(guarded, "R10.13", fi.qualname, "`%s` folds None to the string 'none'" % norm(c), fn_where(fi, c), "%s: %s only for a label that is not None" % (fi.name, norm(c)),
                                      "%s folds `%s` with `%s` without excluding None: an unlabelled taxon's folded label is None (Taxon.lower_cased_label), so the query None becomes 'none', never matches the unlabelled member - get_taxon(None) is None, has_taxon_label(None) is False, every require_taxon(None) adds a new member - and does match a member whose label is the string 'None'" % (fi.qualname, x, norm(c)))
        rep.floor("R10.13", "str(x).lower() folds in the namespace code", 2, n13)

    # ---- R10.14 bit positions are accession indices, not positions in the member list
    with rep.section("R10.14"):
        rep.rule("R10.14", "bit positions are accession indices, not positions in the member list: a loop of the namespace that turns bits into taxa through `_accession_index_taxon_map[<index>]` runs until the bitmask is exhausted - its bound does not involve the number of current members (`len(self._taxa)`, `len(self)`), which is smaller than the highest index in use as soon as a taxon was removed, so the taxa admitted last would be left out without an error")
        n14 = 0
        for fi in index.methods_of(TNS):
            for lp in walk_no_nested(fi.node):
                if not isinstance(lp, (ast.While, ast.For)):
                    continue
                subs = [x for x in ast.walk(lp) if isinstance(x, ast.Subscript) and isinstance(x.value, ast.Attribute) and x.value.attr == "_accession_index_taxon_map"]
                if not subs:
                    continue
                n14 += 1
                bound = lp.test if isinstance(lp, ast.While) else lp.iter
                sized = {norm(st.targets[0]) for st in walk_no_nested(fi.node) if isinstance(st, ast.Assign) and len(st.targets) == 1 and isinstance(st.value, ast.Call) and call_name(st.value) == "len"
                         and st.value.args and norm(st.value.args[0]) in ("self._taxa", "self")}
                bad = [x for x in ast.walk(bound) if (isinstance(x, ast.Call) and call_name(x) == "len" and x.args and norm(x.args[0]) in ("self._taxa", "self")) or (isinstance(x, ast.Name) and x.id in sized)]
                rep.check(not bad, "R10.14", fi.qualname, "bit walk bounded by the number of members", fn_where(fi, lp), "%s: the bit walk ends when the mask is exhausted" % fi.name,
                          "%s walks the bits of a mask and looks each one up in `_accession_index_taxon_map`, but bounds the walk with `%s`: accession indices are never re-used, so after any removal the highest index in use exceeds the number of members and the taxa admitted last are silently dropped from the result (bitmask_taxa_list(taxa_bitmask(taxa=[d])) == [] for namespace [a,b,c,d] minus a)" % (fi.qualname, norm(bad[0]) if bad else ""))
        rep.floor("R10.14", "bit walks over the accession map", 1, n14)

    # ---- R10.15 a first-match query is answered by the first match; bitmasks of members are united
    with rep.section("R10.15"):
        rep.rule("R10.15", "(a) a label query is answered in membership order: the look-up methods of TaxonNamespace (get_taxon, get_taxa, require_taxon, findall, has_taxon_label, has_taxa_labels ...) go through _lookup_label and never consult label_taxon_map(), whose dictionary keeps the LAST member with a label; (b) the bitmask of a set of members is the union of their bits (`|`), never an arithmetic sum - a member named twice (duplicate labels, case variants) would carry into another member's bit")
        LOOKUPS = ("get_taxon", "get_taxa", "require_taxon", "findall", "has_taxon_label", "has_taxa_labels", "get_taxon_by_label" )
        na = 0
        for name in LOOKUPS:
            f = index.klass(TNS).methods.get(name)
            if f is None:
                continue
            na += 1
            viamap = [c for c in calls_in(f.node, nested=True) if call_name(c) == "label_taxon_map"]
            rep.check(not viamap, "R10.15", f.qualname, "label query answered from label_taxon_map()", fn_where(f, viamap[0] if viamap else None), "%s answers through _lookup_label" % f.name,
                      "TaxonNamespace.%s consults `label_taxon_map()`: that dictionary is filled in membership order, so for a label carried by several members (duplicates, case variants under the insensitive setting) it holds the LAST of them - the query returns another member than get_taxon / require_taxon, which return the first" % name)
        rep.floor("R10.15", "look-up methods of TaxonNamespace", 5, na)
        nbm = bitmask_algebra_rule(index, rep, "R10.15", ["dendropy.datamodel.taxonmodel"])
        rep.floor("R10.15", "bitmask operations in the namespace code", 3, nbm)

    # ---- R10.16 nothing in the library resolves a label through the last-wins dictionary
    with rep.section("R10.16"):
        rep.rule("R10.16", "nothing in the library resolves a label through the last-wins dictionary: TaxonNamespace.label_taxon_map() fills `d[t.label] = t` in membership order and so keeps the LAST member carrying a label (and is a snapshot that does not see members created afterwards). No library function calls it - tables that serve look-ups (the NEXUS / Newick symbol mapper, copy constructors that re-map taxa) are filled first-wins or ask require_taxon / get_taxon, so that a label means the same member by every route")
        ncall = 0
        for mod in sorted(index.modules):
            for f in index.functions_in_module(mod):
                pm16 = None
                for c in calls_in(f.node, nested=True):
                    if call_name(c) == "label_taxon_map" and isinstance(c.func, ast.Attribute):
                        ncall += 1
                        # used to RESOLVE labels: subscripted, .get(), `in`-tested, copied into another mapping, stored,
                        # or bound to a name that is (a dictionary merely walked for a listing is not a look-up)
                        pm16 = pm16 or parent_map(f.node)
                        par = pm16.get(c)
                        exprs = [c]
                        if isinstance(par, ast.Assign) and par.value is c:
                            if any(not isinstance(t, ast.Name) for t in par.targets):
                                exprs = None        # stored on an object: a table that serves later look-ups
                            else:
                                names16 = {t.id for t in par.targets}
                                exprs = [x for x in ast.walk(f.node) if isinstance(x, ast.Name) and x.id in names16 and isinstance(x.ctx, ast.Load)]
                        resolves = exprs is None
                        for e16 in exprs or []:
                            q = pm16.get(e16)
                            if isinstance(q, ast.Subscript) and q.value is e16:
                                resolves = True
                            elif isinstance(q, ast.Attribute) and q.attr in ("get", "pop", "setdefault", "__getitem__", "__contains__"):
                                resolves = True
                            elif isinstance(q, ast.Compare) and e16 in q.comparators and any(isinstance(o, (ast.In, ast.NotIn)) for o in q.ops):
                                resolves = True
                            elif isinstance(q, ast.Call) and e16 in q.args and call_name(q) not in ("len", "sorted", "list", "iter", "enumerate", "print", "str", "repr", "format"):
                                resolves = True      # handed on (CaseInsensitiveDict(...), dict(...), a helper)
                            elif isinstance(q, (ast.Return, ast.keyword)):
                                resolves = True
                        if not resolves:
                            rep.ob("R10.16", fn_where(f, c), "%s: label_taxon_map() only walked, not used as a look-up table" % f.name, True, nontrivial=False)
                            continue
                        rep.check(False, "R10.16", f.qualname, "labels resolved through label_taxon_map()", fn_where(f, c), "",
                                  "%s resolves labels through `%s`: the dictionary keeps the LAST of several members with one label (duplicates left by the 'add' import strategy, case variants in a case-insensitive namespace) and does not see members created after it was taken - this route binds a label to another member than require_taxon / get_taxon do (or creates one taxon per occurrence), so equal labels end up on different Taxon objects" % (f.qualname, norm(c)[:60]))
        ltm = index.klass(TNS).methods.get("label_taxon_map")
        if ltm is None:
            raise AnalysisError("R10.16: TaxonNamespace.label_taxon_map is gone")
        rep.ob("R10.16", ltm.qualname, "%d library functions scanned for calls of label_taxon_map(): %d" % (sum(len(list(index.functions_in_module(m))) for m in index.modules), ncall), fn_where(ltm))
        # (b) the symbol mapper's own table is filled first-wins
        rsm = index.function("dendropy.dataio.nexusprocessing.NexusTaxonSymbolMapper.reset_supplemental_mappings")
        nst = 0
        for loop in [x for x in walk_no_nested(rsm.node) if isinstance(x, ast.For)]:
            for st in ast.walk(loop):
                if isinstance(st, ast.Assign) and any(isinstance(t, ast.Subscript) and norm(t.value) == "self.label_taxon_map" for t in st.targets):
                    nst += 1
                    pm_ = parent_map(rsm.node)
                    cur, ok_ = pm_.get(st), False
                    prev = st
                    while cur is not None and cur is not loop:
                        if isinstance(cur, ast.If) and prev in cur.body and any(isinstance(x, ast.Compare) and len(x.ops) == 1 and isinstance(x.ops[0], ast.NotIn) and norm(x.comparators[0]) == "self.label_taxon_map" for x in ast.walk(cur.test)):
                            ok_ = True
                        prev, cur = cur, pm_.get(cur)
                    rep.check(ok_, "R10.16", rsm.qualname, "label table filled last-wins", fn_where(rsm, st), "the mapper's label table keeps the first member with a label (`not in` guard)",
                              "%s stores `%s` for every member without first testing that the label is not in the table yet: the last of several members with one label wins, while TaxonNamespace.require_taxon / get_taxon answer with the first - a tree read into such a namespace binds its leaves to another Taxon than the one look-ups by the same label return" % (rsm.qualname, norm_stmt(st)[:60]))
        rep.floor("R10.16", "stores into the mapper's label table while walking the namespace", 1, nst)

    # ---- R10.17 a borrowed lock is given back on every way out
    with rep.section("R10.17"):
        rep.rule("R10.17", "a borrowed lock is given back on every way out: a library function that saves `<namespace>.is_mutable` in a local, overwrites the flag for the duration of its work and writes the saved value back, does the writing-back in a `finally` clause - the work in between parses a document and refuses unknown labels by raising, and on that path a namespace handed over mutable would stay locked (or one handed over locked would stay open and go on gaining members)")
        n17 = 0
        for mod in sorted(index.modules):
            for f in index.functions_in_module(mod):
                saves = {}
                for st in walk_no_nested(f.node):
                    if isinstance(st, ast.Assign) and len(st.targets) == 1 and isinstance(st.targets[0], ast.Name) and isinstance(st.value, ast.Attribute) and st.value.attr == "is_mutable" and "namespace" in norm(st.value.value).lower():
                        saves[st.targets[0].id] = norm(st.value.value)
                if not saves:
                    continue
                pm_ = parent_map(f.node)
                for st in walk_no_nested(f.node):
                    if isinstance(st, ast.Assign) and len(st.targets) == 1 and isinstance(st.targets[0], ast.Attribute) and st.targets[0].attr == "is_mutable" and isinstance(st.value, ast.Name) and st.value.id in saves and norm(st.targets[0].value) == saves[st.value.id]:
                        n17 += 1
                        cur, infinal = st, False
                        while cur in pm_:
                            par = pm_[cur]
                            if isinstance(par, ast.Try) and any(cur is x for x in par.finalbody):
                                infinal = True
                            cur = par
                        rep.check(infinal, "R10.17", f.qualname, "saved mutability restored on the normal path only", fn_where(f, st), "%s: `%s` sits in a finally clause" % (f.name, norm_stmt(st)[:50]),
                                  "%s overwrites `%s.is_mutable` for the duration of its work and restores it with `%s` outside any `finally`: when the work in between raises (an unknown label in a namespace that may not grow, a cell that is not a number) the flag keeps the temporary value - a namespace handed over mutable stays locked, one handed over locked stays open and goes on gaining members" % (f.qualname, saves[st.value.id], norm_stmt(st)[:50]))
        rep.floor("R10.17", "save / overwrite / restore sequences on a namespace's is_mutable", 1, n17)

    # ---- R10.18 a bit is turned back into a taxon through the accession map
    with rep.section("R10.18"):
        rep.rule("R10.18", "a bit is turned back into a taxon through the accession map: a method of TaxonNamespace that takes a bitmask reads members by `_accession_index_taxon_map[...]`, never by position in the member list (`self._taxa[...]`, `self[...]`) - after a removal, a sort or a reversal the position of a member is no longer its bit, so the decoding would name other taxa than the encoding set")
        n18 = 0
        for mname, mf in sorted(index.klass(TNS).methods.items()):
            if not any("bitmask" in p_ for p_ in mf.params):
                continue
            n18 += 1
            bypos = [x for x in ast.walk(mf.node) if isinstance(x, ast.Subscript) and isinstance(x.ctx, ast.Load) and norm(x.value) in ("self._taxa", "self") and not isinstance(x.slice, ast.Slice)]
            rep.check(not bypos, "R10.18", mf.qualname, "bit decoded by list position", fn_where(mf, bypos[0] if bypos else None), "%s decodes bits through the accession map" % mname,
                      "TaxonNamespace.%s reads `%s`: the index of a bit is the member's ACCESSION index, which equals its list position only while nothing was removed, sorted or reversed - on a sorted namespace `leafset 0b11` is decoded as the first two members of the list instead of the two taxa that carry bits 0 and 1" % (mname, norm(bypos[0]) if bypos else ""))
        rep.floor("R10.18", "TaxonNamespace methods taking a bitmask", 1, n18)
