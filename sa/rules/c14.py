"""C14 Path distances and common ancestors are exact, and NJ/UPGMA invert them.

Decided here (structure only - see the level note): unit discipline between path
lengths and step counts, agreement of the two parallel computations, symmetry of
the lookup tables, the node recorded as common ancestor, freshness of Tree.mrca.
NOT decided: the numeric content of NJ / UPGMA and of the summaries."""
import ast

from .common import *  # noqa
from . import units as U
from . import c04

PD = "dendropy.calculate.phylogeneticdistance."
PDM = PD + "PhylogeneticDistanceMatrix"
NDM = PD + "NodeDistanceMatrix"
TREE = "dendropy.datamodel.treemodel._tree.Tree"
CORE = ("clear", "compile_from_tree", "compile_from_dict", "_mirror_lookups", "mrca", "distance", "patristic_distance", "path_edge_count", "path_edges",
        "distances", "sum_of_distances", "_get_distance_matrix_and_normalization_factor", "as_data_table")


def _field_of(e):
    """self.<F>[..][..] -> (F, [subscript texts])"""
    subs = []
    while isinstance(e, ast.Subscript):
        subs.append(norm(e.slice))
        e = e.value
    if isinstance(e, ast.Attribute) and isinstance(e.value, ast.Name) and e.value.id == "self":
        return e.attr, list(reversed(subs))
    return None, None


class Formula(object):
    """abstract a stored value into a multiset of terms; edge-length terms are 'E', table reads lose the table's identity."""

    def __init__(self, fi, cu):
        self.fi = fi
        self.cu = cu
        self.env = cu.envs.get(fi.qualname, {})
        self.assigns = {}
        for n in walk_no_nested(fi.node):
            if isinstance(n, ast.Assign) and len(n.targets) == 1 and isinstance(n.targets[0], ast.Name):
                self.assigns.setdefault(n.targets[0].id, []).append(n.value)
        # names bound by destructuring a positional tuple: name -> (owner text, key text, position)
        self.components = {}
        for n in walk_no_nested(fi.node):
            if isinstance(n, (ast.For, ast.comprehension)):
                it = n.iter
                if isinstance(it, ast.Call) and isinstance(it.func, ast.Attribute) and it.func.attr == "items" and isinstance(it.func.value, ast.Attribute) and it.func.value.attr in cu.tuples \
                        and isinstance(n.target, ast.Tuple) and len(n.target.elts) == 2 and isinstance(n.target.elts[1], ast.Tuple):
                    key = norm(n.target.elts[0])
                    for i, t in enumerate(n.target.elts[1].elts):
                        if isinstance(t, ast.Name):
                            self.components[t.id] = (norm(it.func.value), key, i)

    def is_elen(self, e, depth=0):
        if U.is_edge_length(e):
            return True
        if isinstance(e, ast.Constant) and e.value in (0, 0.0) and not isinstance(e.value, bool):
            return None   # neutral
        if isinstance(e, ast.IfExp):
            a, b = self.is_elen(e.body, depth), self.is_elen(e.orelse, depth)
            return (a is True or b is True) and a is not False and b is not False
        if isinstance(e, ast.Name) and depth < 3 and e.id in self.assigns and e.id not in self.components:
            rs = [self.is_elen(v, depth + 1) for v in self.assigns[e.id]]
            return any(r is True for r in rs) and all(r is not False for r in rs)
        return False

    def _reaching(self, name, line):
        """the closest assignment to `name` lexically before `line` (straight-line approximation of the reaching definition)"""
        best = None
        for v in self.assigns.get(name, []):
            if v.lineno <= line and (best is None or v.lineno > best.lineno):
                best = v
        return best

    def terms(self, e, depth=0, line=None):
        """list of terms: ('E',), ('C', n), ('T', subscripts), ('P', owner, key), ('X', text)"""
        line = line if line is not None else getattr(e, "lineno", 0)
        if isinstance(e, ast.BinOp) and isinstance(e.op, ast.Add):
            return self.terms(e.left, depth, line) + self.terms(e.right, depth, line)
        if isinstance(e, ast.Constant) and isinstance(e.value, (int, float)) and not isinstance(e.value, bool):
            return [("C", e.value)] if e.value != 0 else []
        if self.is_elen(e) is True:
            return [("E",)]
        if isinstance(e, ast.Name):
            if e.id in self.components:
                owner, key, i = self.components[e.id]
                return [("P", owner, key)]
            v = self._reaching(e.id, line)
            if v is not None and depth < 4:
                return self.terms(v, depth + 1, v.lineno)
            return [("X", e.id)]
        if isinstance(e, ast.Subscript):
            f, subs = _field_of(e)
            if f is not None:
                return [("T", tuple(subs))]
            # node.desc_paths[key][i]
            if isinstance(e.slice, ast.Constant) and isinstance(e.value, ast.Subscript) and isinstance(e.value.value, ast.Attribute) and e.value.value.attr in self.cu.tuples:
                return [("P", norm(e.value.value), norm(e.value.slice))]
        return [("X", norm(e))]

    def folded(self, e, elen_as_one):
        c = 0
        out = []
        for t in self.terms(e):
            if t[0] == "C":
                c += t[1]
            elif t[0] == "E" and elen_as_one:
                c += 1
            else:
                out.append(t)
        if c:
            out.append(("C", c))
        return sorted(out, key=repr)


def _blocks(fn_node):
    """every statement list of the function"""
    for n in ast.walk(fn_node):
        for attr in ("body", "orelse", "finalbody"):
            b = getattr(n, attr, None)
            if isinstance(b, list) and b and isinstance(b[0], ast.stmt):
                yield b


def parallel_rule(rep, rid, fi, cu, ltab, stab, floor):
    fm = Formula(fi, cu)
    npairs = 0
    for block in _blocks(fi.node):
        stores = {}
        for st in block:
            if isinstance(st, ast.Assign) and len(st.targets) == 1:
                f, subs = _field_of(st.targets[0])
                if f in (ltab, stab) and subs:
                    if isinstance(st.value, ast.Dict):
                        # row initialisation {k: v}
                        for k, v in zip(st.value.keys, st.value.values):
                            stores.setdefault(tuple(subs + [norm(k)]), {}).setdefault(f, (st, v))
                    else:
                        stores.setdefault(tuple(subs), {}).setdefault(f, (st, st.value))
        for subs, d in sorted(stores.items()):
            if ltab in d and stab in d:
                npairs += 1
                (ls, lv), (ss, sv) = d[ltab], d[stab]
                a = fm.folded(lv, True)
                b = fm.folded(sv, False)
                ok = a == b
                rep.check(ok, rid, fi.qualname, "length/step formulas for [%s] disagree: %s vs %s" % ("][".join(subs), norm(lv)[:50], norm(sv)[:50]), fn_where(fi, ls),
                          "%s: entry [%s]: step count = length formula with every edge length replaced by 1" % (fi.name, "][".join(subs)),
                          "%s stores, for the same pair [%s], the length `%s` and the step count `%s`: counting 1 for every edge-length term of the first does not give the second (%s vs %s). The two tables describe the same path, so one of them leaves out or double-counts an edge" % (fi.qualname, "][".join(subs), norm(lv)[:90], norm(sv)[:90], a, b))
            elif (ltab in d) != (stab in d) and len(subs) >= 2:
                st = (d.get(ltab) or d.get(stab))[0]
                rep.check(False, rid, fi.qualname, "entry [%s] stored in only one of the two tables" % "][".join(subs), fn_where(fi, st), "",
                          "%s stores the entry [%s] in %s but not in its companion table in the same block: lengths and step counts would be defined for different pairs" % (fi.qualname, "][".join(subs), ltab if ltab in d else stab))
    # positional tuples (descendant path tables): component 0 is the length, 1 the step count
    for n in walk_no_nested(fi.node):
        vals = []
        if isinstance(n, ast.Assign) and isinstance(n.value, ast.Tuple) and isinstance(n.targets[0], ast.Subscript) and isinstance(n.targets[0].value, ast.Attribute) and n.targets[0].value.attr in cu.tuples:
            vals = [n.value]
        elif isinstance(n, ast.Assign) and isinstance(n.value, ast.Dict) and isinstance(n.targets[0], ast.Attribute) and n.targets[0].attr in cu.tuples:
            vals = [v for v in n.value.values if isinstance(v, ast.Tuple)]
        for v in vals:
            if len(v.elts) >= 2:
                npairs += 1
                a, b = fm.folded(v.elts[0], True), fm.folded(v.elts[1], False)
                rep.check(a == b, rid, fi.qualname, "descendant-path tuple components disagree: %s vs %s" % (norm(v.elts[0])[:50], norm(v.elts[1])[:50]), fn_where(fi, n),
                          "%s: descendant path (%s, %s): step count = length formula with edge lengths replaced by 1" % (fi.name, norm(v.elts[0])[:40], norm(v.elts[1])[:40]),
                          "%s records a descendant path with length `%s` and step count `%s`: counting 1 for every edge-length term of the first does not give the second (%s vs %s)" % (fi.qualname, norm(v.elts[0])[:80], norm(v.elts[1])[:80], a, b))
    rep.floor(rid, "length/step formula pairs in %s" % fi.qualname, floor, npairs)


def run(index, rep, tier):
    rep.rule("R14.1", "unit discipline: in the distance-matrix classes no sum mixes a path length with a step count or a bare integer, every field/table holds one unit, the length accessor reads the length table and normalises by the tree length, the step accessor reads the step table and normalises by the edge count, and the weighted/unweighted switch selects them that way round")
    rep.rule("R14.2", "parallel formulas: wherever a length and a step count are stored for the same pair (or built for the same descendant path), replacing every edge-length term of the length formula by 1 gives the step formula")
    rep.rule("R14.3", "symmetry: every table the taxon matrix fills pairwise is mirrored by _mirror_lookups, which runs on every path of compile_from_tree / compile_from_dict; in the node matrix every store [a][b] has its mirror [b][a] with the same value in the same block; self-entries are initialised to zero")
    rep.rule("R14.7", "per-item values are per item: in the matrix compilers a local derived from the current loop item (an edge length defaulted to 0 when missing) is recomputed for every item before use; matrix sizes used by nj_tree/upgma_tree are counts of the matrix's own taxa, never of the namespace")
    rep.rule("R14.5", "one option, one default: a same-named option (is_normalize_by_tree_size, is_weighted_edge_distances) has the same default in every method of a distance-matrix class, so what is written to CSV is what the accessors return")
    rep.rule("R14.6", "a ** keyword dictionary is handed on by unpacking: it never reaches a library callable (csv.writer / csv.reader) as a positional argument, where it would be taken for a dialect and its contents ignored")
    rep.rule("R14.4", "common ancestor: the node recorded as the MRCA of descendants of two different children is the node whose children are being paired; Tree.mrca re-encodes unless told the encoding is current, and treemeasure.patristic_distance forwards that flag and walks both taxa up to the MRCA with the same loop")

    classes = {}
    for cq in (PDM, NDM):
        ci = index.klass(cq)
        methods = [m for n, m in ci.methods.items() if n in CORE]
        if len(methods) < 8:
            raise AnalysisError("R14.1: %s: only %d of the core methods found" % (cq, len(methods)))
        classes[cq] = (ci, U.ClassUnits(ci, methods))

    # ---- R14.1
    with rep.section("R14.1"):
        for cq, (ci, cu) in classes.items():
            tabs = {f: u for f, u in cu.fields.items() if u in (U.L, U.S, U.MIX)}
            rep.floor("R14.1", "unit-carrying fields of %s" % ci.name, 4, len(tabs))
            for f, u in sorted(tabs.items()):
                fi = index.function(cq + ".compile_from_tree")
                rep.check(u != U.MIX, "R14.1", fi.qualname, "field self.%s receives both lengths and step counts" % f, fn_where(fi), "self.%s holds %s only" % (f, U._nm(u)),
                          "%s stores both path lengths and step counts into self.%s: the table no longer has a single meaning" % (ci.name, f))
            for fi, node, txt in cu.mixed:
                rep.check(False, "R14.1", fi.qualname, "mixed units: " + norm(node)[:70], fn_where(fi, node), "", "%s: %s: a step count (or constant) has been used where an edge length belongs, or the other way round" % (fi.qualname, txt))
            n_ok = 0
            for m in (index.function(cq + "." + n) for n in ("compile_from_tree",)):
                n_ok += 1
                rep.ob("R14.1", fn_where(m), "%s.%s: %d locals typed, no sum mixes lengths with counts" % (ci.name, m.name, len(cu.envs.get(m.qualname, {}))), True)
            # accessors
            for acc, want in (("patristic_distance", U.L), ("path_edge_count", U.S)):
                fi = index.function(cq + "." + acc)
                env = cu.envs.get(fi.qualname, {})
                rets = [r for r in walk_no_nested(fi.node) if isinstance(r, ast.Return) and r.value is not None and not isinstance(r.value, ast.Constant)]
                got = set()
                for r in rets:
                    v = r.value
                    if isinstance(v, ast.BinOp) and isinstance(v.op, (ast.Div, ast.FloorDiv)):
                        a, b = cu.unit(v.left, env), cu.unit(v.right, env)
                        got.add(a)
                        rep.check(b == want, "R14.1", fi.qualname, "normalised by a %s quantity: %s" % (U._nm(b), norm(v)[:60]), fn_where(fi, r), "%s normalises a %s by a %s" % (acc, U._nm(a), U._nm(b)),
                                  "%s.%s divides by `%s`, a %s quantity, where the %s total belongs: the normalised value is not a proportion of the tree" % (ci.name, acc, norm(v.right), U._nm(b), U._nm(want)))
                    else:
                        got.add(cu.unit(v, env))
                rep.check(got == {want}, "R14.1", fi.qualname, "%s returns %s" % (acc, sorted(map(U._nm, got))), fn_where(fi), "%s returns a %s from the %s table" % (acc, U._nm(want), U._nm(want)),
                          "%s.%s returns a %s: it reads the wrong table (path lengths and step counts are kept in separate tables)" % (ci.name, acc, "/".join(sorted(map(U._nm, got)))))
            # the weighted switch
            g = index.function(cq + "._get_distance_matrix_and_normalization_factor")
            flag = g.params[1] if len(g.params) > 1 else None
            sw = [i for i in g.node.body if isinstance(i, ast.If) and norm(i.test) in (flag, "not " + flag)]
            if len(sw) != 1:
                raise AnalysisError("R14.1: %s: weighted/unweighted switch not recognised" % g.qualname)
            tb, fb = (sw[0].body, sw[0].orelse) if norm(sw[0].test) == flag else (sw[0].orelse, sw[0].body)
            for branch, want, what in ((tb, U.L, "weighted"), (fb, U.S, "unweighted")):
                us = set()
                for n in branch:
                    for a in ast.walk(n):
                        if isinstance(a, ast.Assign):
                            u = cu.unit(a.value, {})
                            if u is not None:
                                us.add(u)
                rep.check(us == {want}, "R14.1", g.qualname, "%s branch selects %s" % (what, sorted(map(U._nm, us))), fn_where(g, branch[0] if branch else g.node), "%s branch selects the %s table and total" % (what, U._nm(want)),
                          "%s: the %s branch selects %s quantities (table / normalisation factor): weighted distances must come from the length table and be normalised by the tree length, unweighted ones from the step table and the edge count" % (g.qualname, what, "/".join(sorted(map(U._nm, us))) or "no"))
            d = index.function(cq + ".distance")
            dflag = [p for p in d.params if "weighted" in p]
            if not dflag:
                raise AnalysisError("R14.1: %s: weighted/unweighted dispatch not recognised" % d.qualname)
            sw = [t.stmt for t in cfg_of(d).nodes if t.kind == "test" and norm(t.ast) == dflag[0]]
            if len(sw) != 1:
                raise AnalysisError("R14.1: %s: weighted/unweighted dispatch not recognised" % d.qualname)
            tc = reachable_calls(d, {dflag[0]: True})
            fc = reachable_calls(d, {dflag[0]: False})
            rep.check("patristic_distance" in tc and "path_edge_count" in fc and "path_edge_count" not in tc and "patristic_distance" not in fc, "R14.1", d.qualname, "dispatch weighted->%s unweighted->%s" % (sorted(tc), sorted(fc)), fn_where(d, sw[0]),
                      "distance(): weighted -> patristic_distance, unweighted -> path_edge_count", "%s dispatches weighted -> %s and unweighted -> %s" % (d.qualname, sorted(tc), sorted(fc)))

    # ---- R14.2
    with rep.section("R14.2"):
        parallel_rule(rep, "R14.2", index.function(PDM + ".compile_from_tree"), classes[PDM][1], "_taxon_phylogenetic_distances", "_taxon_phylogenetic_path_steps", 4)
        parallel_rule(rep, "R14.2", index.function(NDM + ".compile_from_tree"), classes[NDM][1], "_node_phylogenetic_distances", "_node_phylogenetic_path_steps", 8)

    # ---- R14.3
    with rep.section("R14.3"):
        cf = index.function(PDM + ".compile_from_tree")
        filled = set()
        for n in walk_no_nested(cf.node):
            if isinstance(n, ast.Assign):
                f, subs = _field_of(n.targets[0])
                if f is not None and len(subs) == 2 and subs[0] != subs[1]:
                    filled.add(f)
        ml = index.function(PDM + "._mirror_lookups")
        mirrored = set()
        for n in walk_no_nested(ml.node):
            if isinstance(n, ast.For) and isinstance(n.iter, ast.Tuple):
                # for ddata in (self.a, self.b, ...):  ddata[t2][t1] = ddata[t1][t2]
                v = norm(n.target)
                sym = any(isinstance(a, ast.Assign) and isinstance(a.targets[0], ast.Subscript) and isinstance(a.value, ast.Subscript) and _sym_pair(a.targets[0], a.value, v) for a in ast.walk(n))
                if sym:
                    mirrored |= {e.attr for e in n.iter.elts if isinstance(e, ast.Attribute) and norm(e.value) == "self"}
            if isinstance(n, ast.Assign):
                f, subs = _field_of(n.targets[0])
                if f is not None and len(subs) == 2:
                    rd = [x for x in ast.walk(n.value) if isinstance(x, ast.Subscript) and _field_of(x) == (f, list(reversed(subs)))]
                    if rd:
                        mirrored.add(f)
        rep.floor("R14.3", "tables filled pairwise by PhylogeneticDistanceMatrix.compile_from_tree", 4, len(filled))
        for f in sorted(filled):
            rep.check(f in mirrored, "R14.3", ml.qualname, "table self.%s is not mirrored" % f, fn_where(ml), "self.%s: filled for (t1, t2) in compile_from_tree, mirrored to (t2, t1) by _mirror_lookups" % f,
                      "compile_from_tree fills self.%s for each pair (t1, t2) once, but _mirror_lookups does not copy it to (t2, t1): the matrix is not symmetric (a lookup in the other order raises KeyError or answers differently)" % f)
        for q in (PDM + ".compile_from_tree", PDM + ".compile_from_dict"):
            f = index.function(q)
            cfg = cfg_of(f)
            ok, w = cfg.must_pass(cfg.entry, lambda n: any(call_name(c) == "_mirror_lookups" for c in node_calls(n)))
            rep.check(ok, "R14.3", f.qualname, "_mirror_lookups on every path", fn_where(f), "%s ends with _mirror_lookups on every normal path" % f.name, "%s can return without calling _mirror_lookups: only one triangle of the matrix is filled" % f.qualname)
            # nothing is filled after mirroring
            late = []
            for n in cfg.nodes:
                if any(call_name(c) == "_mirror_lookups" for c in node_calls(n)):
                    for m in cfg.reach(cfg.succ_after(n), follow_exc=False):
                        if m.kind == "stmt" and isinstance(m.ast, ast.Assign) and _field_of(m.ast.targets[0])[0] in filled:
                            late.append(m)
            rep.check(not late, "R14.3", f.qualname, "table filled after mirroring", fn_where(f, late[0].stmt if late else None), "%s fills no table after mirroring" % f.name, "%s stores into a pair table after _mirror_lookups has run" % f.qualname)
        clr = index.function(PDM + ".clear")
        cleared = {w_.attr for w_ in writes_in(clr.node) if w_.kind == "store" and w_.base is not None and norm(w_.base) == "self"}
        for f in sorted(filled):
            rep.check(f in cleared, "R14.3", clr.qualname, "table self.%s not reset by clear()" % f, fn_where(clr), "clear() resets self.%s" % f, "clear() does not reset self.%s: compiling a second tree into the same matrix keeps pairs of the first" % f)
        # node matrix: mirrored stores in the same block
        nf = index.function(NDM + ".compile_from_tree")
        nsym = 0
        consumed = set()
        for block in _blocks(nf.node):
            if id(block) in consumed:
                continue
            st2 = []
            for st in block:
                flat = isinstance(st, ast.If) and not st.orelse and len(st.body) <= 2 and all(isinstance(x, ast.Assign) for x in st.body)
                if flat:
                    consumed.add(id(st.body))
                for a in ([st] if isinstance(st, ast.Assign) else list(st.body) if flat else []):
                    f, subs = _field_of(a.targets[0])
                    if f is not None and len(subs) == 2 and subs[0] != subs[1]:
                        st2.append((f, subs, a))
            for f, subs, a in st2:
                nsym += 1
                mirror = [b for g, s2, b in st2 if g == f and s2 == [subs[1], subs[0]]]
                ok = bool(mirror) and any(_same_value(a.value, b.value, subs) for b in mirror)
                rep.check(ok, "R14.3", nf.qualname, "no mirror store for self.%s[%s][%s]" % (f, subs[0], subs[1]), fn_where(nf, a), "self.%s[%s][%s] has its mirror with the same value in the same block" % (f, subs[0], subs[1]),
                          "NodeDistanceMatrix.compile_from_tree stores self.%s[%s][%s] = %s without storing the same value under [%s][%s] in the same block: the node matrix is not symmetric" % (f, subs[0], subs[1], norm(a.value)[:60], subs[1], subs[0]))
        rep.floor("R14.3", "pairwise stores in NodeDistanceMatrix.compile_from_tree", 16, nsym)

    # ---- R14.7
    with rep.section("R14.7"):
        nst = 0
        for q in (PDM + ".compile_from_tree", NDM + ".compile_from_tree", PDM + ".nj_tree", PDM + ".upgma_tree"):
            nst += stale_item_value_rule(rep, "R14.7", index.function(q))
        rep.floor("R14.7", "uses of item-derived locals in the matrix compilers / NJ / UPGMA", 3, nst)
        nsz = 0
        for q in (PDM + ".nj_tree", PDM + ".upgma_tree"):
            f = index.function(q)
            for c in calls_in(f.node):
                if call_name(c) == "len" and isinstance(c.func, ast.Name) and c.args:
                    a = norm(c.args[0])
                    nsz += 1
                    rep.check("taxon_namespace" not in a, "R14.7", f.qualname, "size taken from the namespace: %s" % norm(c), fn_where(f, c), "%s: `%s` counts matrix entries" % (f.name, norm(c)),
                              "%s takes a size from `%s`: a namespace can hold taxa the matrix has no distances for (a pruned tree keeps its namespace; a CSV read into a shared namespace), so the (n-2) factors of the Q-matrix / branch lengths are computed for too large an n and the reconstructed edge lengths are wrong" % (f.qualname, norm(c)))
        rep.floor("R14.7", "len() calls in nj_tree / upgma_tree", 2, nsz)
        rep.floor("R14.7", "temporary settings in from_csv", 1, save_restore_rule(rep, "R14.7", index.function(PDM + ".from_csv")))

    # ---- R14.5
    with rep.section("R14.5"):
        nopt = sum(option_default_rule(index, rep, "R14.5", cq, ("is_normalize_by_tree_size", "is_weighted_edge_distances")) for cq in (PDM, NDM))
        rep.floor("R14.5", "methods taking a normalisation / weighting option", 15, nopt)

    # ---- R14.6
    with rep.section("R14.6"):
        ncall = kwargs_unpacked_rule(index, rep, "R14.6", [PD.rstrip("."), "dendropy.utility.container"])
        rep.floor("R14.6", "calls inside functions that take a ** dictionary", 20, ncall)

    # ---- R14.4
    with rep.section("R14.4"):
        for q, tab in ((PDM + ".compile_from_tree", "_mrca"), (NDM + ".compile_from_tree", "_mrca")):
            f = index.function(q)
            outer = [n for n in f.node.body if isinstance(n, ast.For) and "postorder" in norm(n.iter)]
            if len(outer) != 1 or not isinstance(outer[0].target, ast.Name):
                raise AnalysisError("R14.4: %s: post-order loop not recognised" % q)
            nodevar = outer[0].target.id
            kids = {n.targets[0].id for n in ast.walk(outer[0]) if isinstance(n, ast.Assign) and isinstance(n.targets[0], ast.Name) and isinstance(n.value, ast.Call) and call_name(n.value) == "child_nodes"
                    and norm(n.value.func.value) == nodevar}
            childvars = set()
            for n in ast.walk(outer[0]):
                if isinstance(n, ast.For):
                    it = n.iter
                    src = it.args[0] if isinstance(it, ast.Call) and call_name(it) == "enumerate" and it.args else it
                    while isinstance(src, ast.Subscript):
                        src = src.value
                    if isinstance(src, ast.Name) and src.id in kids:
                        t = n.target.elts[-1] if isinstance(n.target, ast.Tuple) else n.target
                        if isinstance(t, ast.Name):
                            childvars.add(t.id)
            nst = 0
            for n in ast.walk(outer[0]):
                if isinstance(n, ast.Assign):
                    fld, subs = _field_of(n.targets[0])
                    if fld == tab and len(subs) == 2 and subs[0] != subs[1] and not isinstance(n.value, ast.Dict):
                        nst += 1
                        v = norm(n.value)
                        ok = v == nodevar or any(v == c + ".parent_node" for c in childvars)
                        rep.check(ok, "R14.4", f.qualname, "MRCA of a pair across children recorded as `%s`" % v, fn_where(f, n), "%s: MRCA[%s][%s] = %s (the node whose children are paired)" % (f.name, subs[0], subs[1], v),
                                  "%s records `%s` as the common ancestor of [%s] and [%s], which descend from two different children of `%s`: the common ancestor of such a pair is `%s` itself" % (f.qualname, v, subs[0], subs[1], nodevar, nodevar))
            rep.floor("R14.4", "pairwise MRCA stores in %s" % q, 1, nst)
        tm = index.function(TREE + ".mrca")
        cfg = cfg_of(tm)
        enc = [n for n in cfg.nodes if any(call_name(c) in ("encode_bipartitions", "update_bipartitions") for c in node_calls(n))]
        if not enc:
            rep.check(False, "R14.4", tm.qualname, "no refresh in Tree.mrca", fn_where(tm), "", "Tree.mrca never re-encodes the bipartitions: with is_bipartitions_updated=False (a refresh requested) it descends by stale leafset bitmasks")
        for n in enc:
            # reachable when the caller says the encoding is NOT current: the test `not kwargs.get('is_bipartitions_updated', True)` true edge
            guards = [t for t in cfg.nodes if t.kind == "test" and "is_bipartitions_updated" in norm(t.ast)]
            ok = False
            for t in guards:
                neg = isinstance(t.ast, ast.UnaryOp) and isinstance(t.ast.op, ast.Not)
                lab = "t" if neg else "f"
                ok = ok or any(l == lab and (d is n or cfg.can_reach(d, lambda x: x is n, skip_src=False) is not None) for l, d in t.succ)
                bad_lab = "f" if neg else "t"
            rep.check(ok and bool(guards), "R14.4", tm.qualname, "refresh polarity in Tree.mrca", fn_where(tm, n.stmt), "Tree.mrca re-encodes when is_bipartitions_updated is falsy",
                      "Tree.mrca does not re-encode the bipartitions when the caller passes is_bipartitions_updated=False (the refresh the property allows the caller to request): the descent then follows stale leafset bitmasks after a structural edit")
            # the early `return None` of Tree.mrca tests CONTAINMENT of the requested mask in the start node's leaf set
        rets = [r for r in walk_no_nested(tm.node) if isinstance(r, ast.Return) and (r.value is None or is_none(r.value))]
        pmm = parent_map(tm.node)
        ncont = 0
        for r in rets:
            iff = pmm.get(r)
            if not isinstance(iff, ast.If):
                continue
            t = iff.test
            ands = [b for b in ast.walk(t) if isinstance(b, ast.BinOp) and isinstance(b.op, ast.BitAnd) and "leafset_bitmask" in norm(b)]
            if not ands:
                continue
            ncont += 1
            cp = compare_parts(t)
            okc = bool(cp) and cp[1] in ("NotEq", "Eq") and ((isinstance(cp[0], ast.BinOp) and norm(cp[2]) in (norm(cp[0].left), norm(cp[0].right))) or (isinstance(cp[2], ast.BinOp) and norm(cp[0]) in (norm(cp[2].left), norm(cp[2].right))))
            rep.check(okc, "R14.4", tm.qualname, "`return None` guarded by `%s`" % norm(t)[:60], fn_where(tm, iff), "Tree.mrca gives up only when the requested taxa are not ALL below the start node (intersection compared with the requested mask)",
                      "Tree.mrca returns None under `%s`: the test must be containment - (start leafset & requested) != requested - ; testing the intersection for emptiness (overlap) lets a taxon set that is only partly below the start node through, and the root / start node is returned as 'common ancestor' of taxa it does not all contain" % norm(t)[:80])
        rep.floor("R14.4", "containment guards in Tree.mrca", 1, ncont)
        pdq = index.function("dendropy.calculate.treemeasure.patristic_distance")
        mc = [c for c in calls_in(pdq.node) if call_name(c) == "mrca"]
        okf = bool(mc) and all(get_kwarg(c, "is_bipartitions_updated") is not None and norm(get_kwarg(c, "is_bipartitions_updated")) == "is_bipartitions_updated" for c in mc)
        rep.check(okf, "R14.4", pdq.qualname, "is_bipartitions_updated forwarded to tree.mrca", fn_where(pdq), "treemeasure.patristic_distance forwards is_bipartitions_updated to tree.mrca", "treemeasure.patristic_distance does not forward its is_bipartitions_updated argument to tree.mrca: the documented refresh never happens (or always happens)")
        loops = [n for n in pdq.node.body if isinstance(n, ast.While)]
        if len(loops) != 2:
            raise AnalysisError("R14.4: treemeasure.patristic_distance: expected two walk-up loops, found %d" % len(loops))
        a, b = (ast.dump(l) for l in loops)
        rep.check(a == b, "R14.4", pdq.qualname, "the two walk-up loops differ", fn_where(pdq, loops[1]), "both taxa are walked up to the MRCA by the same loop", "treemeasure.patristic_distance walks the two taxa up to their common ancestor with different loops (`%s` / `%s`): one side's edge lengths are accumulated differently" % (norm(loops[0].test), norm(loops[1].test)))

    # ---- R14.8 what goes into the tables and what comes out of the CSV
    with rep.section("R14.8"):
        rep.rule("R14.8", "path lengths are sums of the edge lengths the tree had: the edge-length merges done when encode_bipartitions collapses an unrooted basal bifurcation or suppresses a unifurcation conserve length in all None-ness cases (C07 R07.4, R07.6; C08 R08.6), and write_csv formats distances losslessly (str / %s / {} only) so that from_csv reads back the same numbers")
        nb = borrow(index, rep, "C07", {"R07.4", "R07.6"}, "R14.8") + borrow(index, rep, "C08", {"R08.6"}, "R14.8")
        from . import c02
        nb += c02.lossless_format_rule(index, rep, "R14.8", ["dendropy.calculate.phylogeneticdistance"])
        rep.floor("R14.8", "borrowed obligations and format strings", 6, nb)

    # ---- R14.9 a matrix compiled from a table supports the same summaries
    with rep.section("R14.9"):
        rep.rule("R14.9", "a matrix compiled from a table (from_csv / compile_from_dict) supports the same pairwise summaries as one compiled from a tree: every compile_from_* function that fills the distance table also fills the set of distinct taxon pairs that mean_pairwise_distance, distances and sum_of_distances iterate")
        PDMq = "dendropy.calculate.phylogeneticdistance.PhylogeneticDistanceMatrix"
        pdm = index.klass(PDMq)
        readers = [m for m in pdm.methods.values() if any(isinstance(l, ast.For) and norm(l.iter) == "self._all_distinct_mapped_taxa_pairs" for l in ast.walk(m.node))]
        rep.floor("R14.9", "summaries iterating the pair set", 2, len(readers))
        ncomp = 0
        for m in pdm.methods.values():
            if not m.name.startswith("compile_from_"):
                continue
            fills_d = any(w.attr == "_taxon_phylogenetic_distances" and w.kind in ("substore", "mutcall") for w in writes_in(m.node)) or any(isinstance(t, ast.Subscript) and "_taxon_phylogenetic_distances" in norm(t) for a in ast.walk(m.node) if isinstance(a, ast.Assign) for t in a.targets)
            if not fills_d:
                continue
            ncomp += 1
            fills_p = any(call_name(c) in ("add", "update") and norm(c.func.value) == "self._all_distinct_mapped_taxa_pairs" for c in calls_in(m.node, nested=True))
            rep.check(fills_p, "R14.9", m.qualname, "distance table filled without the pair set", fn_where(m), "%s fills the distinct-pair set" % m.name,
                      "%s fills the distance table but never adds to `_all_distinct_mapped_taxa_pairs`, which mean_pairwise_distance(), distances() and sum_of_distances() iterate (%d readers): a matrix read back from CSV then has no pairs - mean_pairwise_distance raises NullAssemblageException and distances() is empty although every entry is there" % (m.qualname, len(readers)))
        rep.floor("R14.9", "compile functions filling the distance table", 2, ncomp)

    # ---- R14.10 the CSV lists the taxa in namespace order
    with rep.section("R14.10"):
        rep.rule("R14.10", "the CSV lists taxa in namespace order: write_csv does not produce rows or columns by iterating a set of Taxon objects (hash = identity, i.e. address order) - from_csv without name row / column assigns row i to taxon_namespace[i], so the writer must walk the namespace")
        PDMq = "dendropy.calculate.phylogeneticdistance.PhylogeneticDistanceMatrix"
        pdm = index.klass(PDMq)
        setattrs = {w.attr for m in pdm.methods.values() for w in writes_in(m.node) if w.kind == "store" and w.base is not None and norm(w.base) == "self" and w.value is not None and isinstance(w.value, ast.Call) and isinstance(w.value.func, ast.Name) and w.value.func.id == "set"}
        wc = pdm.methods["write_csv"]
        loops = [l for l in ast.walk(wc.node) if isinstance(l, (ast.For, ast.comprehension))]
        nl = 0
        for l in loops:
            it = l.iter
            txt = norm(it)
            nl += 1
            from_set = isinstance(it, ast.Attribute) and norm(it.value) == "self" and it.attr in setattrs
            if isinstance(it, ast.Call) and isinstance(it.func, ast.Attribute) and norm(it.func.value) == "self" and it.func.attr in pdm.methods:
                # an iterator method of the class: does it walk one of the sets?
                callee = pdm.methods[it.func.attr]
                from_set = any(isinstance(x, ast.For) and isinstance(x.iter, ast.Attribute) and norm(x.iter.value) == "self" and x.iter.attr in setattrs for x in ast.walk(callee.node))
            rep.check(not from_set, "R14.10", wc.qualname, "CSV rows / columns produced by iterating a set: %s" % txt[:40], fn_where(wc, it), "write_csv: `%s` is not a set of taxa" % txt[:40],
                      "PhylogeneticDistanceMatrix.write_csv produces its rows / columns by iterating `%s`, a set of Taxon objects (hashed by identity, so the order is address order and differs from run to run): a CSV written without name row and column is read back by from_csv with row i assigned to taxon_namespace[i], i.e. the distances land on other taxa - with names the file is still different on every run" % txt[:50])
        rep.floor("R14.10", "loops in write_csv", 2, nl)
        rep.floor("R14.10", "set-valued attributes of the matrix", 1, len(setattrs))

    # ---- R14.11 nothing derived from one compilation survives into the next
    with rep.section("R14.11"):
        rep.rule("R14.11", "nothing derived from one compilation survives into the next: every instance attribute of PhylogeneticDistanceMatrix that is written anywhere but as a plain constructor option is reset by clear(), and compile_from_tree / compile_from_dict call clear() before they write anything - a memo kept outside that discipline answers for the tree that was compiled before")
        PDMQ = "dendropy.calculate.phylogeneticdistance.PhylogeneticDistanceMatrix"
        pci = index.klass(PDMQ)
        wr = {}
        for f in pci.methods.values():
            for x in writes_in(f.node):
                if x.base is not None and norm(x.base) == "self":
                    wr.setdefault(x.attr, []).append((f, x))
        if "clear" not in pci.methods:
            raise AnalysisError("R14.11: PhylogeneticDistanceMatrix.clear vanished")
        cleared = {a for a, v in wr.items() if any(f.name == "clear" and x.kind == "store" for f, x in v)}
        n11 = 0
        for a, v in sorted(wr.items()):
            config = all(f.name == "__init__" and x.kind == "store" and isinstance(x.value, ast.Name) and x.value.id in f.all_params for f, x in v)
            if config:
                continue
            n11 += 1
            f0, x0 = [(f, x) for f, x in v if f.name != "clear"][0] if any(f.name != "clear" for f, x in v) else v[0]
            rep.check(a in cleared, "R14.11", PDMQ, "`self.%s` is not reset by clear()" % a, fn_where(f0, x0.stmt), "self.%s is reset by clear()" % a,
                      "PhylogeneticDistanceMatrix keeps `self.%s` (written in %s) but clear() does not reset it: compile_from_tree / compile_from_dict start from clear(), so after the matrix is re-compiled for another tree this attribute still describes the previous one and every query that reads it answers for taxa that may no longer be there"
                      % (a, sorted({f.name for f, x in v})))
        rep.floor("R14.11", "derived attributes of the distance matrix", 8, n11)
        for nm in ("compile_from_tree", "compile_from_dict"):
            f = pci.methods[nm]
            g = cfg_of(f)

            def clears(n):
                return any(call_name(c) == "clear" and isinstance(c.func, ast.Attribute) and norm(c.func.value) == "self" for c in node_calls(n))
            for x in writes_in(f.node):
                if x.base is None or norm(x.base) != "self":
                    continue
                nd = node_of_ast(g, x.stmt)
                ok = nd is not None and g.dominated_by(nd, clears)
                rep.check(ok, "R14.11", f.qualname, "`self.%s` written before clear()" % x.attr, fn_where(f, x.stmt), "%s: self.%s written after clear()" % (nm, x.attr),
                          "%s writes `self.%s` on a path that has not called self.clear(): what the previous compilation left in the matrix is mixed into the new one" % (f.qualname, x.attr))

    # ---- R14.12 bitmasks are sets
    with rep.section("R14.12"):
        rep.rule("R14.12", "bitmasks are sets: in the namespace, the bipartition code, the tree model and the distance code a bitmask is combined with | & ^ ~ and shifts, never with + - * or sum() (addition is union only for disjoint operands; `x - 1` lowest-bit tricks excepted)")
        nbm = bitmask_algebra_rule(index, rep, "R14.12", ["dendropy.datamodel.taxonmodel", "dendropy.datamodel.treemodel._bipartition", "dendropy.datamodel.treemodel._tree", "dendropy.datamodel.treemodel._node",
                                                         "dendropy.datamodel.treecollectionmodel", "dendropy.calculate.phylogeneticdistance", "dendropy.calculate.treecompare", "dendropy.utility.bitprocessing"])
        rep.floor("R14.12", "bitmask operations examined", 25, nbm)

    # ---- R14.13 every pair of distinct taxa is recorded
    with rep.section("R14.13"):
        rep.rule("R14.13", "every pair of distinct taxa is recorded: where a compile_from_* function adds to `_all_distinct_mapped_taxa_pairs` inside its pair loops, the only condition between the inner loop and the add is that the two taxa differ (`t1 is not t2` / `!=`), or none - a condition on what has been seen before (membership in `_mapped_taxa`) records the pairs of the first row only, and the mean-pairwise summaries average over n-1 pairs instead of n(n-1)/2")
        n13 = 0
        for m_ in pdm.methods.values():
            if not m_.name.startswith("compile_from_"):
                continue
            g = cfg_of(m_)
            pmap = parent_map(m_.node)
            for c in calls_in(m_.node):
                if not (call_name(c) == "add" and norm(c.func.value) == "self._all_distinct_mapped_taxa_pairs"):
                    continue
                n13 += 1
                # conditions (If tests) enclosing the add, up to the nearest enclosing loop
                conds = []
                q = pmap.get(c)
                prev = c
                while q is not None and not isinstance(q, (ast.For, ast.While, ast.FunctionDef)):
                    if isinstance(q, ast.If):
                        conds.append(q.test)
                    prev = q
                    q = pmap.get(q)
                loopvars = set()
                r = q
                while r is not None and not isinstance(r, ast.FunctionDef):
                    if isinstance(r, ast.For):
                        loopvars |= {x.id for x in ast.walk(r.target) if isinstance(x, ast.Name)}
                    r = pmap.get(r)
                bad = []
                for t in conds:
                    ok = isinstance(t, ast.Compare) and len(t.ops) == 1 and isinstance(t.ops[0], (ast.IsNot, ast.NotEq, ast.Is, ast.Eq)) and {norm(t.left), norm(t.comparators[0])} <= {norm(ast.Name(id=v, ctx=ast.Load())) for v in loopvars} | {x for x in (norm(t.left), norm(t.comparators[0])) if x.split(".")[0] in loopvars}
                    if not ok:
                        bad.append(t)
                rep.check(not bad, "R14.13", m_.qualname, "pair recorded only under `%s`" % (norm(bad[0])[:50] if bad else ""), fn_where(m_, c), "%s: pairs recorded for every two distinct taxa" % m_.name,
                          "%s adds to `_all_distinct_mapped_taxa_pairs` only when `%s` holds: that depends on what was seen in earlier iterations, so most pairs are never recorded - distances() returns n-1 entries, sum_of_distances() and mean_pairwise_distance() of a matrix read back from CSV are computed over the pairs of the first row alone" % (m_.qualname, norm(bad[0])[:60] if bad else ""))
        rep.floor("R14.13", "pair recordings in the compile functions", 2, n13)

    # ---- R14.14 the ancestor query rests on one bit per taxon
    with rep.section("R14.14"):
        rep.rule("R14.14", "the most-recent-common-ancestor query rests on one bit per taxon: Tree.mrca works on leafset bitmasks, so it is only as right as the namespace's promise that no two members ever share a bit - the accession counter only grows and both index maps are written together (C10 R10.2, R10.3), also across removals and later additions")
        nb = borrow(index, rep, "C10", {"R10.2", "R10.3"}, "R14.14")
        rep.floor("R14.14", "borrowed obligations", 3, nb)

    # ---- R14.15 every compile route stores the zero diagonal
    with rep.section("R14.15"):
        rep.rule("R14.15", "every compile route stores the zero diagonal: compile_from_tree writes `distances[t][t] = 0.0` for each mapped taxon, and the table writers (write_csv, as_data_table) and the cluster methods read `dmatrix[t1][t2]` for ALL pairs including t1 == t2 - so compile_from_dict, which receives the upper triangle only from from_csv, stores a zero for every taxon with itself as well (a store or setdefault whose two keys are the same expression)")
        PDMC = "dendropy.calculate.phylogeneticdistance.PhylogeneticDistanceMatrix"
        n15 = 0
        for name in ("compile_from_tree", "compile_from_dict"):
            f = index.function(PDMC + "." + name)
            n15 += 1
            diag = False
            for x in ast.walk(f.node):
                if isinstance(x, ast.Assign) and len(x.targets) == 1 and isinstance(x.targets[0], ast.Subscript) and isinstance(x.targets[0].value, ast.Subscript) \
                        and "_taxon_phylogenetic_distances" in norm(x.targets[0].value.value) and norm(x.targets[0].slice) == norm(x.targets[0].value.slice) \
                        and isinstance(x.value, ast.Constant) and x.value.value in (0, 0.0):
                    diag = True
                if isinstance(x, ast.Call) and call_name(x) == "setdefault" and len(x.args) == 2 and isinstance(x.args[1], ast.Constant) and x.args[1].value in (0, 0.0) \
                        and "_taxon_phylogenetic_distances" in norm(x.func.value) and norm(x.args[0]) in norm(x.func.value):
                    diag = True
            rep.check(diag, "R14.15", f.qualname, "zero diagonal not stored", fn_where(f), "%s stores distance(t, t) = 0 for every mapped taxon" % name,
                      "PhylogeneticDistanceMatrix.%s never stores the distance of a taxon to itself: a matrix read with from_csv (which hands over the upper triangle only) answers distance(a, a) but raises KeyError in write_csv / as_data_table, which read dmatrix[t][t] - a matrix read back from CSV cannot be written again" % name)
        rep.floor("R14.15", "compile routes", 2, n15)

    # ---- R14.16 pairs of distinct items
    with rep.section("R14.16"):
        rep.rule("R14.16", "pairs are pairs of DISTINCT items: where the distance code enumerates unordered pairs with `for i, a in enumerate(xs): for b in xs[i+1:]`, the inner slice starts one past the outer index - starting AT it pairs every item with itself, which adds n-1 zero entries to a list of pairwise distances (its length, mean and variance are then those of a different sample)")
        n16 = 0
        for mod in PROP_MODULES["C14"][:2]:
            for f in index.functions_in_module(mod):
                for outer in [l for l in ast.walk(f.node) if isinstance(l, ast.For)]:
                    if not (isinstance(outer.iter, ast.Call) and call_name(outer.iter) == "enumerate" and outer.iter.args and isinstance(outer.target, ast.Tuple) and len(outer.target.elts) == 2 and isinstance(outer.target.elts[0], ast.Name)):
                        continue
                    sq_ = outer.iter.args[0]
                    if isinstance(sq_, ast.Subscript) and isinstance(sq_.slice, ast.Slice):
                        sq_ = sq_.value         # `enumerate(xs[:-1])` walks xs
                    seq, iv = norm(sq_), outer.target.elts[0].id
                    for inner in [l for st in outer.body for l in ast.walk(st) if isinstance(l, ast.For)]:
                        sl = [x for x in ast.walk(inner.iter) if isinstance(x, ast.Subscript) and norm(x.value) == seq and isinstance(x.slice, ast.Slice) and x.slice.lower is not None and x.slice.upper is None]
                        if not sl:
                            continue
                        n16 += 1
                        lo = sl[0].slice.lower
                        plus1 = isinstance(lo, ast.BinOp) and isinstance(lo.op, ast.Add) and {norm(lo.left), norm(lo.right)} == {iv, "1"}
                        guarded = any(isinstance(t, ast.If) and any(isinstance(c, ast.Compare) and isinstance(c.ops[0], (ast.Is, ast.IsNot, ast.Eq, ast.NotEq)) for c in ast.walk(t.test)) and any(isinstance(y, ast.Continue) for y in ast.walk(t)) for t in inner.body)
                        rep.check(plus1 or guarded, "R14.16", f.qualname, "pair loop includes an item with itself", fn_where(f, inner), "%s: inner loop over `%s` skips the outer item" % (f.name, norm(sl[0])[:40]),
                                  "%s pairs the items of `%s` with `%s`: the slice starts at the outer item itself, so every item is also paired with itself - NodeDistanceMatrix.distances() returns n-1 extra zero entries (20 entries for 6 nodes instead of 15; mean 4.75 instead of 6.33)" % (f.qualname, seq, norm(sl[0])[:40]))
        rep.floor("R14.16", "nested pair loops over a slice of the outer sequence", 1, n16)

    # ---- R14.17 a normalisation factor that was asked for is applied
    with rep.section("R14.17"):
        rep.rule("R14.17", "a normalisation factor that was asked for is applied: every method of PhylogeneticDistanceMatrix that takes `dmatrix, normalization_factor` from _get_distance_matrix_and_normalization_factor() reads the factor (the summaries and writers divide by it) - the twin summaries mean_pairwise_distance / mean_nearest_taxon_distance share this tail, and rewriting one of them without the division returns the raw mean when `is_normalize_by_tree_size=True` was requested")
        n17 = 0
        for mname, mf in sorted(index.klass("dendropy.calculate.phylogeneticdistance.PhylogeneticDistanceMatrix").methods.items()):
            for a in ast.walk(mf.node):
                if isinstance(a, ast.Assign) and isinstance(a.value, ast.Call) and call_name(a.value) == "_get_distance_matrix_and_normalization_factor" and len(a.targets) == 1 and isinstance(a.targets[0], ast.Tuple) and len(a.targets[0].elts) == 2 and isinstance(a.targets[0].elts[1], ast.Name):
                    n17 += 1
                    fac = a.targets[0].elts[1].id
                    used = any(isinstance(x, ast.Name) and x.id == fac and isinstance(x.ctx, ast.Load) for x in ast.walk(mf.node))
                    rep.check(used, "R14.17", mf.qualname, "normalisation factor obtained and never applied", fn_where(mf, a), "%s applies the factor it obtained" % mname,
                              "PhylogeneticDistanceMatrix.%s obtains `%s` and never reads it: with is_normalize_by_tree_size=True the result is the raw value (a mean pairwise distance of 6.2 where 0.459 of the tree length is expected), while its twin summary still normalises" % (mname, fac))
        rep.floor("R14.17", "methods that obtain a normalisation factor", 3, n17)

    # ---- R14.18 a missing length counts as zero, it is not added as None
    with rep.section("R14.18"):
        rep.rule("R14.18", "a missing length counts as zero, it is never added as None: in the distance-matrix compilers an `<x>.edge.length` / `edge_length` read that is an operand of `+` / `+=` lies on a path that has established `<that expression> is not None` (or goes through a local given `... if ... is not None else 0.0`) - trees without branch lengths are inside the property's quantifier, and `1.0 + None` is a TypeError")
        n18 = 0
        for f in index.functions_in_module("dendropy.calculate.phylogeneticdistance"):
            if "compile_from_tree" not in f.name:
                continue
            g18 = cfg_of(f)
            ops = []
            for x in ast.walk(f.node):
                if isinstance(x, ast.BinOp) and isinstance(x.op, (ast.Add, ast.Sub)):
                    ops += [(o, x) for o in (x.left, x.right)]
                elif isinstance(x, ast.AugAssign) and isinstance(x.op, (ast.Add, ast.Sub)):
                    ops.append((x.value, x))
            for o, holder in ops:
                if not (isinstance(o, ast.Attribute) and o.attr in ("length", "edge_length")):
                    continue
                n18 += 1
                xt = norm(o)

                def unknown(s_, l_, d_, xt=xt):
                    if s_.kind == "test" and isinstance(s_.ast, ast.Compare) and len(s_.ast.ops) == 1 and norm(s_.ast.left) == xt and is_none(s_.ast.comparators[0]):
                        if isinstance(s_.ast.ops[0], ast.IsNot):
                            return l_ != "t"
                        if isinstance(s_.ast.ops[0], ast.Is):
                            return l_ != "f"
                    return True
                nd = node_of_ast(g18, o)
                seen = g18.reach([g18.entry], follow_exc=False, edge_ok=unknown)
                inline_guard = False
                pm18 = parent_map(f.node)
                cur = o
                while cur in pm18:
                    cur = pm18[cur]
                    if isinstance(cur, ast.IfExp) and xt in norm(cur.test) and "None" in norm(cur.test):
                        inline_guard = True
                cur = o
                while cur in pm18:
                    prev, cur = cur, pm18[cur]
                    if isinstance(cur, ast.Try) and any(prev is b_ for b_ in cur.body) and any(h.type is not None and "TypeError" in norm(h.type) for h in cur.handlers):
                        inline_guard = True     # `try: total += e.length / except TypeError: pass`: the repository's other idiom for a missing length
                rep.check(inline_guard or (nd is not None and nd not in seen), "R14.18", f.qualname, "`%s` added without a None test" % xt, fn_where(f, o), "%s: `%s` is added only where it is not None" % (f.qualname.split(".")[-2] + "." + f.name, xt),
                          "%s adds `%s` on a path that has not established it is not None: for a tree where that edge has no length (`((a,b),(c,d));`, or `((a:1,b):2,...)`) the compilation raises TypeError instead of counting the missing length as zero" % (f.qualname, xt))
        rep.floor("R14.18", "edge lengths used as operands of + in the distance compilers", 2, n18)


def option_default_rule(index, rep, rid, cq, options):
    ci = index.klass(cq)
    n = 0
    for opt in options:
        defaults = {}
        for m in ci.methods.values():
            a = m.node.args
            pos = a.posonlyargs + a.args
            dflt = dict(zip([x.arg for x in pos[len(pos) - len(a.defaults):]], a.defaults))
            dflt.update({k.arg: d for k, d in zip(a.kwonlyargs, a.kw_defaults) if d is not None})
            if opt in dflt and not m.name.startswith("_"):
                defaults.setdefault(norm(dflt[opt]), []).append(m)
        if not defaults:
            continue
        major = max(defaults, key=lambda k: len(defaults[k]))
        for dv, ms in sorted(defaults.items()):
            for m in ms:
                n += 1
                rep.check(dv == major, rid, m.qualname, "default %s=%s differs from the other methods (%s)" % (opt, dv, major), fn_where(m),
                          "%s.%s: %s defaults to %s like the other %d methods" % (ci.name, m.name, opt, dv, len(defaults[major]) - (1 if dv == major else 0)),
                          "%s.%s has the default %s=%s while the %d other methods of the class that take the option default to %s: with default arguments it does not deliver the distances the accessors (and nj_tree / upgma_tree) work with - a matrix written by it and read back is a rescaled matrix, so trees reconstructed from it have rescaled edge lengths" % (ci.name, m.name, opt, dv, len(defaults[major]), major))
    return n


def kwargs_unpacked_rule(index, rep, rid, modules):
    n = 0
    for mname in modules:
        for f in index.functions_in_module(mname):
            if not f.kwarg:
                continue
            unpacked = [c for c in calls_in(f.node, nested=True) if any(k.arg is None and isinstance(k.value, ast.Name) and k.value.id == f.kwarg for k in c.keywords)]
            rep.ob(rid, fn_where(f), "%s: **%s is handed on %s" % (f.qualname, f.kwarg, "by unpacking at %d call(s)" % len(unpacked) if unpacked else "to no callee"), True, nontrivial=bool(unpacked))
            for c in calls_in(f.node, nested=True):
                n += 1
                passed = [a for a in c.args if isinstance(a, ast.Name) and a.id == f.kwarg] + [k.value for k in c.keywords if k.arg is not None and isinstance(k.value, ast.Name) and k.value.id == f.kwarg]
                if not passed:
                    continue
                grade, cands = index.resolve_call(c, f)
                if grade in ("self", "static") and cands:
                    continue        # a function of this repository that takes the dictionary as an ordinary argument
                if isinstance(c.func, ast.Name) and c.func.id in ("dict", "len", "list", "sorted", "bool", "str", "repr", "id", "type", "isinstance"):
                    continue
                rep.check(False, rid, f.qualname, "**%s passed as a plain argument: %s" % (f.kwarg, norm(c)[:60]), fn_where(f, c), "",
                          "%s hands its keyword dictionary `%s` to `%s` as a plain argument instead of unpacking it (**%s): the callee takes it for a different parameter (csv's `dialect`) and silently ignores the options in it - e.g. delimiter=... has no effect, so a tab-separated matrix cannot be written and read back" % (f.qualname, f.kwarg, norm(c.func), f.kwarg))
    return n


def _sym_pair(target, value, var):
    """target == var[a][b], value == var[b][a]"""
    def parts(e):
        s = []
        while isinstance(e, ast.Subscript):
            s.append(norm(e.slice))
            e = e.value
        return norm(e), list(reversed(s))
    tb, ts = parts(target)
    vb, vs = parts(value)
    return tb == vb == var and len(ts) == 2 and ts == list(reversed(vs))


def _same_value(a, b, subs):
    """b is a with the two subscripts swapped, or textually equal (symmetric value)."""
    ta, tb = norm(a), norm(b)
    if ta == tb:
        return True
    x, y = subs
    swapped = ta.replace("[%s]" % x, "[\0]").replace("[%s]" % y, "[%s]" % x).replace("[\0]", "[%s]" % y)
    if swapped == tb:
        return True
    # commutative sum
    if isinstance(a, ast.BinOp) and isinstance(b, ast.BinOp) and isinstance(a.op, ast.Add) and isinstance(b.op, ast.Add):
        return sorted([norm(a.left), norm(a.right)]) == sorted([norm(b.left), norm(b.right)])
    return False
