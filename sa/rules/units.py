"""A small dimension analysis for the distance-matrix classes.

Two kinds of quantity are kept side by side in these classes: path LENGTHS (sums
of edge lengths, unit 'L') and path STEP counts (numbers of edges, unit 'S').
The analysis infers a unit for every field of a class and every local of a
method from what flows into it, and reports

  * additive expressions / stores that mix L with S (or add a bare non-zero
    integer to a length),
  * divisions of a quantity of one unit by a quantity of the other.

Lattice:  None (unknown, zero constant, dimensionless)  <  L | S | N(ode)  <  MIX.
A non-zero integer constant is 'K': it behaves as S in a sum with S, is a
mismatch in a sum with L, and a field/table that only ever receives K is S.
Tuples have positional units (the desc_paths triples).
"""
import ast

from ..index import norm, walk_no_nested

L, S, K, N, MIX = "L", "S", "K", "N", "MIX"


class Row(object):
    """the dict-of-positional-tuples attribute itself (X.desc_paths)"""
    def __init__(self, attr):
        self.attr = attr

    def __eq__(self, o):
        return isinstance(o, Row) and o.attr == self.attr

    def __hash__(self):
        return hash(("Row", self.attr))


def join(a, b):
    if a is None:
        return b
    if b is None:
        return a
    if isinstance(a, Row) or isinstance(b, Row):
        return a if a == b else MIX
    if isinstance(a, tuple) or isinstance(b, tuple):
        if isinstance(a, tuple) and isinstance(b, tuple) and len(a) == len(b):
            return tuple(join(x, y) for x, y in zip(a, b))
        return MIX
    if a == b:
        return a
    if {a, b} == {K, S}:
        return S
    return MIX


def add(a, b):
    """unit of a + b / a - b, and whether the sum is ill-typed."""
    if a is None:
        return b, False
    if b is None:
        return a, False
    if isinstance(a, (tuple, Row)) or isinstance(b, (tuple, Row)):
        return None, False      # list/tuple concatenation
    if a == b:
        return a, False
    if {a, b} == {K, S}:
        return S, False
    return MIX, True


def is_edge_length(e):
    """X.edge.length / X.edge_length"""
    if isinstance(e, ast.Attribute):
        if e.attr == "edge_length":
            return True
        if e.attr == "length" and isinstance(e.value, ast.Attribute) and e.value.attr in ("edge", "_edge"):
            return True
    return False


class ClassUnits(object):
    def __init__(self, cls_info, methods):
        self.cls = cls_info
        self.methods = methods          # FunctionInfo list
        self.fields = {}                # self.<field> -> unit
        self.tuples = {}                # attribute name holding positional tuples (desc_paths) -> tuple unit
        self.envs = {}                  # function qualname -> {local: unit}
        self.mixed = []                 # (fi, node, text)
        self.div = []                   # (fi, node, unit_num, unit_den)
        self._solve()

    # -------------------------------------------------------------- expressions
    def unit(self, e, env, fi=None, record=False):
        if e is None:
            return None
        if isinstance(e, ast.Constant):
            v = e.value
            if isinstance(v, bool) or v is None:
                return None
            if isinstance(v, int) and v != 0:
                return K
            return None
        if isinstance(e, ast.Name):
            return env.get(e.id)
        if isinstance(e, ast.Attribute):
            if is_edge_length(e):
                return L
            if isinstance(e.value, ast.Name) and e.value.id == "self":
                return self.fields.get(e.attr)
            if e.attr in self.tuples:
                return Row(e.attr)
            return None
        if isinstance(e, ast.Subscript):
            b = self.unit(e.value, env, fi, record)
            if isinstance(b, Row):
                # X.desc_paths[key] -> the positional tuple
                return self.tuples.get(b.attr)
            if isinstance(b, tuple):
                idx = e.slice.value if isinstance(e.slice, ast.Constant) else None
                if isinstance(idx, int) and 0 <= idx < len(b):
                    return b[idx]
                return None
            return b
        if isinstance(e, ast.BinOp):
            a = self.unit(e.left, env, fi, record)
            b = self.unit(e.right, env, fi, record)
            if isinstance(e.op, (ast.Add, ast.Sub)):
                u, bad = add(a, b)
                if bad and record:
                    self.mixed.append((fi, e, "`%s` adds a %s quantity and a %s quantity" % (norm(e)[:80], _nm(a), _nm(b))))
                return None if bad else u
            if isinstance(e.op, (ast.Div, ast.FloorDiv)):
                if record:
                    self.div.append((fi, e, a, b))
                return None
            if isinstance(e.op, ast.Mult):
                if a in (None, K):
                    return b if a is None else b
                if b in (None, K):
                    return a
            return None
        if isinstance(e, ast.IfExp):
            return join(self.unit(e.body, env, fi, record), self.unit(e.orelse, env, fi, record))
        if isinstance(e, ast.Call):
            f = e.func
            nm = f.id if isinstance(f, ast.Name) else (f.attr if isinstance(f, ast.Attribute) else None)
            if nm in ("float", "int", "abs", "sum", "min", "max", "list", "tuple", "sorted", "reversed") and e.args:
                return self.unit(e.args[0], env, fi, record)
            return None
        if isinstance(e, (ast.List, ast.Set)):
            u = None
            for x in e.elts:
                u = join(u, self.unit(x, env, fi, record))
            return u
        if isinstance(e, ast.ListComp):
            return None
        if isinstance(e, ast.Tuple):
            return tuple(self.unit(x, env, fi, record) for x in e.elts)
        if isinstance(e, ast.Dict):
            u = None
            for v in e.values:
                u = join(u, self.unit(v, env, fi, record))
            return u
        return None

    # --------------------------------------------------------------- statements
    def _bind(self, target, u, env):
        ch = False
        if isinstance(target, ast.Name):
            nu = join(env.get(target.id), u)
            if nu != env.get(target.id):
                env[target.id] = nu
                ch = True
        elif isinstance(target, (ast.Tuple, ast.List)):
            if isinstance(u, tuple) and len(u) == len(target.elts):
                for t, x in zip(target.elts, u):
                    ch |= self._bind(t, x, env)
        elif isinstance(target, ast.Attribute) and isinstance(target.value, ast.Name) and target.value.id == "self":
            nu = join(self.fields.get(target.attr), _store(u))
            if nu != self.fields.get(target.attr):
                self.fields[target.attr] = nu
                ch = True
        elif isinstance(target, ast.Attribute) and target.attr in self.tuples:
            # node.desc_paths = {key: (..)}  -> u is the (joined) value unit
            if isinstance(u, tuple):
                nu = join(self.tuples.get(target.attr), u)
                if nu != self.tuples.get(target.attr):
                    self.tuples[target.attr] = nu
                    ch = True
        elif isinstance(target, ast.Subscript):
            root = target
            depth = 0
            while isinstance(root, ast.Subscript):
                root = root.value
                depth += 1
            if isinstance(root, ast.Attribute) and isinstance(root.value, ast.Name) and root.value.id == "self":
                nu = join(self.fields.get(root.attr), _store(u))
                if nu != self.fields.get(root.attr):
                    self.fields[root.attr] = nu
                    ch = True
            elif isinstance(root, ast.Attribute) and root.attr in self.tuples and depth == 1 and isinstance(u, tuple):
                nu = join(self.tuples.get(root.attr), u)
                if nu != self.tuples.get(root.attr):
                    self.tuples[root.attr] = nu
                    ch = True
        return ch

    def _pass(self, fi, record=False):
        env = self.envs.setdefault(fi.qualname, {})
        ch = False
        for n in walk_no_nested(fi.node):
            if isinstance(n, ast.Assign):
                u = self.unit(n.value, env, fi, record)
                for t in n.targets:
                    ch |= self._bind(t, u, env)
            elif isinstance(n, ast.AugAssign) and isinstance(n.op, (ast.Add, ast.Sub)):
                cur = self.unit(n.target, env, fi, False)
                u = self.unit(n.value, env, fi, record)
                r, bad = add(cur, u)
                if bad and record:
                    self.mixed.append((fi, n, "`%s` adds a %s quantity to a %s accumulator" % (norm(n)[:80], _nm(u), _nm(cur))))
                if not bad:
                    ch |= self._bind(n.target, u, env)
            elif isinstance(n, (ast.For, ast.comprehension)):
                it = n.iter
                # for key, (a, b, c) in X.desc_paths.items()
                if isinstance(it, ast.Call) and isinstance(it.func, ast.Attribute) and it.func.attr == "items" and isinstance(it.func.value, ast.Attribute) and it.func.value.attr in self.tuples \
                        and isinstance(n.target, ast.Tuple) and len(n.target.elts) == 2:
                    ch |= self._bind(n.target.elts[1], self.tuples.get(it.func.value.attr), env)
            elif isinstance(n, ast.Expr) and isinstance(n.value, ast.Call) and isinstance(n.value.func, ast.Attribute) and n.value.func.attr == "append" and n.value.args:
                ch |= self._bind(n.value.func.value, self.unit(n.value.args[0], env, fi, record), env)
            elif record and isinstance(n, (ast.Return, ast.Expr, ast.If, ast.While)):
                for x in ([n.value] if isinstance(n, (ast.Return, ast.Expr)) and n.value is not None else [n.test] if isinstance(n, (ast.If, ast.While)) else []):
                    self.unit(x, env, fi, True)
        return ch

    def _solve(self):
        # positional-tuple attributes: X.<attr> = {k: (..)} or X.<attr>[k] = (..)
        for fi in self.methods:
            for n in walk_no_nested(fi.node):
                if isinstance(n, ast.Assign):
                    t = n.targets[0]
                    if isinstance(t, ast.Subscript) and isinstance(t.value, ast.Attribute) and isinstance(n.value, ast.Tuple) and not (isinstance(t.value.value, ast.Name) and t.value.value.id == "self"):
                        self.tuples.setdefault(t.value.attr, None)
        for _ in range(12):
            ch = False
            for fi in self.methods:
                ch |= self._pass(fi)
            if not ch:
                break
        for fi in self.methods:
            self._pass(fi, record=True)
        # de-duplicate records (the recording pass may visit an expression twice)
        seen = set()
        out = []
        for fi, node, txt in self.mixed:
            k = (fi.qualname, getattr(node, "lineno", 0), getattr(node, "col_offset", 0), txt)
            if k not in seen:
                seen.add(k)
                out.append((fi, node, txt))
        self.mixed = out
        seen = set()
        out = []
        for fi, node, a, b in self.div:
            k = (fi.qualname, getattr(node, "lineno", 0), getattr(node, "col_offset", 0))
            if k not in seen:
                seen.add(k)
                out.append((fi, node, a, b))
        self.div = out


def _store(u):
    """unit a field/table takes when u is stored into it."""
    if u == K:
        return S
    if isinstance(u, (tuple, Row)):
        return None
    if u == N:
        return None
    return u


def _nm(u):
    return {L: "length", S: "step-count", K: "bare integer", None: "dimensionless", MIX: "mixed"}.get(u, str(u))
