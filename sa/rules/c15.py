"""C15 Every traversal visits each node or edge exactly once in its defining order."""
import ast
import re

from .common import *  # noqa

TM = "dendropy.datamodel.treemodel."
NODE = TM + "_node.Node"
TREE = TM + "_tree.Tree"
EDGE = TM + "_edge.Edge"


def _edge_to_node(txt):
    """normalise an edge-iterator expression to its node-iterator counterpart."""
    t = txt.replace("self.seed_node._edge", "self").replace("self.seed_node.edge", "self")
    t = re.sub(r"\b(\w+)\._head_node\._child_nodes", r"\1._child_nodes", t)
    t = re.sub(r"\b(\w+)\._head_node\._parent_node", r"\1._parent_node", t)
    t = re.sub(r"\b(\w+)\._edge\b", r"\1", t)
    t = re.sub(r"\bedge\b", "node", t)
    return t


def stack_schema(fi, edge=False):
    """Extract the traversal schema of an explicit-stack generator."""
    f = fi.node
    sch = {}
    conv = _edge_to_node if edge else (lambda x: x)
    inits = [n for n in f.body if isinstance(n, ast.Assign) and isinstance(n.value, ast.List) and len(n.value.elts) == 1]
    loops = [n for n in f.body if isinstance(n, ast.While)]
    if len(inits) != 1 or len(loops) != 1:
        raise AnalysisError("R15.1: %s is not a single-work-list generator (inits %d, loops %d)" % (fi.qualname, len(inits), len(loops)))
    wl = norm(inits[0].targets[0])
    first = inits[0].value.elts[0]
    sch["two_state"] = isinstance(first, ast.Tuple)
    sch["init"] = conv(norm(first.elts[0] if sch["two_state"] else first))
    loop = loops[0]
    sch["guard"] = norm(loop.test) == wl
    pops = [c for c in ast.walk(loop) if isinstance(c, ast.Call) and call_name(c) == "pop" and norm(c.func.value) == wl]
    if len(pops) != 1:
        raise AnalysisError("R15.1: %s: expected one pop on the work list" % fi.qualname)
    sch["discipline"] = "LIFO" if not pops[0].args else ("FIFO" if const_value(pops[0].args[0], -1) == 0 else "other")
    # order of events in the loop body (flattened): yield / re-push / extend
    events = []
    for n in walk_no_nested(loop):
        if isinstance(n, ast.Yield):
            events.append(("yield", n.lineno, n.col_offset, conv(norm(n.value))))
        elif isinstance(n, ast.Call) and isinstance(n.func, ast.Attribute) and norm(n.func.value) == wl and n.func.attr in ("extend", "append"):
            a = n.args[0]
            if n.func.attr == "append":
                events.append(("repush", n.lineno, n.col_offset, conv(norm(a))))
            else:
                gen = a
                if isinstance(gen, (ast.GeneratorExp, ast.ListComp)) and len(gen.generators) == 1:
                    it = gen.generators[0].iter
                    rev = isinstance(it, ast.Call) and call_name(it) == "reversed"
                    src = it.args[0] if rev else it
                    elt = gen.elt
                    state = None
                    if isinstance(elt, ast.Tuple):
                        state = const_value(elt.elts[1], "?")
                        elt = elt.elts[0]
                    events.append(("extend", n.lineno, n.col_offset, {"reversed": rev, "children": conv(norm(src)), "elem": conv(norm(elt)), "state": state}))
                else:
                    events.append(("extend", n.lineno, n.col_offset, {"reversed": isinstance(gen, ast.Call) and call_name(gen) == "reversed", "children": conv(norm(gen)), "elem": None, "state": None}))
    # order of events along the structure, not the text: statement index inside each block, and inside an `if`
    # the branch taken when the (un-negated) test is true comes first - so `if not A: X else: Y` reads as `if A: Y else: X`
    lpm = parent_map(loop)

    def skey(node):
        path = []
        cur = node
        while cur is not loop and cur is not None:
            par = lpm.get(cur)
            if par is None:
                break
            if isinstance(par, ast.If):
                t, tb, fb = pos_if(par)
                if any(cur is x for x in tb):
                    path.append((1, 0, [id(x) for x in tb].index(id(cur))))
                elif any(cur is x for x in fb):
                    path.append((1, 1, [id(x) for x in fb].index(id(cur))))
                else:
                    path.append((0, 0, 0))      # inside the test
            else:
                for attr in ("body", "orelse", "finalbody"):
                    blk = getattr(par, attr, None)
                    if isinstance(blk, list) and any(cur is x for x in blk):
                        path.append((1, 0 if attr == "body" else 1, [id(x) for x in blk].index(id(cur))))
                        break
                else:
                    path.append((0, 0, getattr(cur, "col_offset", 0)))
            cur = par
        return list(reversed(path))
    node_of_event = {}
    for n in walk_no_nested(loop):
        if isinstance(n, (ast.Yield, ast.Call)):
            node_of_event[(getattr(n, "lineno", 0), getattr(n, "col_offset", 0))] = n
    events.sort(key=lambda e: (skey(node_of_event[(e[1], e[2])]), e[1], e[2]))
    sch["order"] = [e[0] for e in events]
    ext = [e[3] for e in events if e[0] == "extend"]
    sch["extend"] = ext[0] if len(ext) == 1 else ext
    rp = [e[3] for e in events if e[0] == "repush"]
    sch["repush"] = rp[0] if rp else None
    ys = [n for n in walk_no_nested(loop) if isinstance(n, ast.Yield)]
    pm = parent_map(loop)
    guards = []
    for y in ys:
        p = pm.get(y)
        while p is not None and not isinstance(p, ast.If):
            p = pm.get(p)
        chain = []
        prev = y
        while isinstance(p, ast.If):
            t_, tb_, fb_ = pos_if(p)
            in_true = any(any(z is prev for z in ast.walk(st)) for st in tb_)
            chain.append(("" if in_true else "not ") + conv(norm(t_)))
            prev = p
            q = pm.get(p)
            while q is not None and not isinstance(q, ast.If):
                q = pm.get(q)
            p = q
        guards.append(chain)
    sch["yield_guards"] = guards
    return sch


def lambda_texts(fi, edge=False):
    """(role, normalised body) of the lambdas a function assigns; role 'f' = the one handed on as filter_fn, 'froot' = the others."""
    out = []
    passed = set()
    for c in ast.walk(fi.node):
        if isinstance(c, ast.Call):
            v = get_kwarg(c, "filter_fn")
            if v is not None and isinstance(v, ast.Name):
                passed.add(v.id)
    names = {}
    for n in walk_no_nested(fi.node):
        if isinstance(n, ast.Assign) and isinstance(n.value, ast.Lambda):
            names[norm(n.targets[0])] = "f" if norm(n.targets[0]) in passed else "froot"
    for n in walk_no_nested(fi.node):
        if isinstance(n, ast.Assign) and isinstance(n.value, ast.Lambda):
            lam = n.value
            p = lam.args.args[0].arg if lam.args.args else "x"
            body = norm(lam.body)
            body = re.sub(r"\b%s\b" % re.escape(p), "x", body)
            for nm, role in names.items():
                body = re.sub(r"\b%s\b" % re.escape(nm), role, body)
            if edge:
                body = body.replace("x._head_node.", "x.")
            out.append((names[norm(n.targets[0])], body))
    return sorted(out)


def run(index, rep, tier):
    rep.rule("R15.1", "node/edge iterator siblings: each edge iterator is a wrapper over its node counterpart or an isomorphic clone (equal traversal schema), and each schema is the textbook one for its name")
    rep.rule("R15.2", "truthiness filters need always-truthy objects: Node and Edge define neither __bool__ nor __len__ anywhere in their MRO")
    rep.rule("R15.3", "Tree.*_node_iter wrappers forward every parameter to the Node counterpart called on self.seed_node")
    rep.rule("R15.4", "len(tree) counts the items of seed_node.leaf_iter()")
    rep.rule("R15.5", "the callback walk (Node.apply) pops only below its start node: the upward climb is bounded by the start node")

    # ---- R15.1
    with rep.section("R15.1"):
        canon = {
            "preorder": {"two_state": False, "discipline": "LIFO", "order": ["yield", "extend"], "reversed": True},
            "postorder": {"two_state": True, "discipline": "LIFO", "order": ["yield", "repush", "extend"], "reversed": True},
        }
        for kind, nq, eq in (("preorder", NODE + ".preorder_iter", TREE + ".preorder_edge_iter"), ("postorder", NODE + ".postorder_iter", TREE + ".postorder_edge_iter")):
            nf, ef = index.function(nq), index.function(eq)
            ns, es = stack_schema(nf), stack_schema(ef, edge=True)
            c = canon[kind]
            for who, f, s in (("node", nf, ns), ("edge", ef, es)):
                ext = s["extend"] if isinstance(s["extend"], dict) else {}
                checks = [
                    ("work-list discipline", s["discipline"], c["discipline"]),
                    ("two-state protocol", s["two_state"], c["two_state"]),
                    ("event order", s["order"], c["order"]),
                    ("children pushed reversed", ext.get("reversed"), c["reversed"]),
                    ("loop runs while the work list is non-empty", s["guard"], True),
                ]
                if kind == "postorder":
                    checks.append(("children pushed unvisited", ext.get("state"), False))
                    checks.append(("yield only on the visited marker", any("state" in g for ch in s["yield_guards"] for g in ch), True))
                for what, got, want in checks:
                    rep.check(got == want, "R15.1", f.qualname, "%s: %s" % (what, got), fn_where(f), "%s %s iterator: %s = %s" % (kind, who, what, want),
                              "%s: the %s traversal's %s is %s, expected %s: nodes are visited in the wrong order, more than once or not at all on some shapes" % (f.qualname, kind, what, got, want))
            for k in ("init", "two_state", "discipline", "order", "extend", "repush", "yield_guards"):
                rep.check(ns[k] == es[k], "R15.1", ef.qualname, "schema component %s differs from %s: %s vs %s" % (k, nf.name, es[k], ns[k]), fn_where(ef),
                          "%s and %s agree on %s" % (ef.name, nf.name, k),
                          "%s is an independent copy of %s but their traversal schemas differ in `%s` (edge: %s, node: %s): the edge iterator no longer yields the edges of the nodes its node counterpart yields, in the same order" % (ef.qualname, nf.qualname, k, es[k], ns[k]))
        # internal variants: same lambdas modulo x -> x._head_node, and they delegate to the right base
        for nq, eq, nbase, ebase in ((NODE + ".preorder_internal_node_iter", TREE + ".preorder_internal_edge_iter", "preorder_iter", "preorder_edge_iter"),
                                     (NODE + ".postorder_internal_node_iter", TREE + ".postorder_internal_edge_iter", "postorder_iter", "postorder_edge_iter")):
            nf, ef = index.function(nq), index.function(eq)
            nl, el = lambda_texts(nf), lambda_texts(ef, edge=True)
            rep.check(nl == el and len(nl) >= 4, "R15.1", ef.qualname, "filter lambdas %s vs %s" % (el, nl), fn_where(ef), "%s composes the same internal-node filters as %s (under x -> x._head_node)" % (ef.name, nf.name),
                      "%s composes different filters from %s: edge %s / node %s" % (ef.qualname, nf.qualname, el, nl))
            for f, base in ((nf, nbase), (ef, ebase)):
                rets = [n for n in walk_no_nested(f.node) if isinstance(n, ast.Return)]
                fv = get_kwarg(rets[0].value, "filter_fn") if len(rets) == 1 and isinstance(rets[0].value, ast.Call) else None
                ok = len(rets) == 1 and isinstance(rets[0].value, ast.Call) and call_name(rets[0].value) == base and isinstance(fv, ast.Name) and \
                    any(isinstance(a, ast.Assign) and norm(a.targets[0]) == fv.id and isinstance(a.value, ast.Lambda) for a in walk_no_nested(f.node))
                rep.check(ok, "R15.1", f.qualname, "delegates to %s(filter_fn=f)" % base, fn_where(f), "%s delegates to %s with the composed filter" % (f.name, base),
                          "%s no longer returns %s(filter_fn=f)" % (f.qualname, base))
            # the internal filter really selects non-leaves and honours exclude_seed
            ok = all(("x._child_nodes" in b) for nm, b in nl if nm == "f") and any(b == "x._parent_node is not None" for nm, b in nl if nm == "froot")
            rep.check(ok, "R15.1", nf.qualname, "internal filter content", fn_where(nf), "internal filter = has children (and has a parent when the seed is excluded)",
                      "%s: the internal-node filter no longer tests `_child_nodes` / `_parent_node is not None`" % nf.qualname)
        # level order: FIFO, children in order
        lf = index.function(NODE + ".levelorder_iter")
        pops = [c for c in calls_in(lf.node) if call_name(c) == "pop"]
        ok = len(pops) == 1 and pops[0].args and const_value(pops[0].args[0], -1) == 0
        rep.check(ok, "R15.1", lf.qualname, "queue discipline", fn_where(lf), "level-order pops from the front (FIFO)", "levelorder_iter no longer pops from the front of its queue: depths are not visited in non-decreasing order")
        exts = [c for c in calls_in(lf.node) if call_name(c) == "extend"]
        ok = len(exts) == 1 and "reversed" not in norm(exts[0]) and "child_nodes" in norm(exts[0].args[0])
        if ok and isinstance(exts[0].args[0], ast.Name):
            pass
        rep.check(bool(exts) and "reversed" not in norm(exts[0]), "R15.1", lf.qualname, "children appended in order", fn_where(lf), "level-order appends children left to right", "levelorder_iter appends children reversed")
        first_yield = [n for n in walk_no_nested(lf.node) if isinstance(n, ast.Yield)]
        rep.check(bool(first_yield) and norm(first_yield[0].value) == "self", "R15.1", lf.qualname, "start node first", fn_where(lf), "level-order yields the start node first", "levelorder_iter no longer yields the start node first")
        # wrapper edge iterators
        for name, base in (("levelorder_edge_iter", "levelorder_iter"), ("inorder_edge_iter", "inorder_iter"), ("leaf_edge_iter", "leaf_iter")):
            f = index.function(TREE + "." + name)
            loops = [l for l in walk_no_nested(f.node) if isinstance(l, ast.For)]
            ok = len(loops) == 1 and isinstance(loops[0].iter, ast.Call) and call_name(loops[0].iter) == base and norm(loops[0].iter.func.value) == "self.seed_node" \
                and isinstance(get_kwarg(loops[0].iter, "filter_fn"), ast.Name)
            ys = [n for n in walk_no_nested(f.node) if isinstance(n, ast.Yield)]
            ok = ok and len(ys) == 1 and norm(ys[0].value) in (norm(loops[0].target) + ".edge", norm(loops[0].target) + "._edge")
            lam = [b for nm, b in lambda_texts(f) if nm == "f"]
            ok = ok and lam == ["filter_fn(x.edge)"]
            rep.check(ok, "R15.1", f.qualname, "wrapper over " + base, fn_where(f), "%s wraps seed_node.%s, yields nd.edge and applies the caller's filter to the edge" % (name, base),
                      "%s is no longer `for nd in self.seed_node.%s(filter_fn=lambda x: filter_fn(x.edge)): yield nd.edge`" % (f.qualname, base))

    # ---- R15.2
    with rep.section("R15.2"):
        for cq in (NODE, EDGE):
            ci = index.klass(cq)
            bad = [(c.name, m) for c in index.mro(ci) for m in ("__bool__", "__len__", "__nonzero__") if m in c.methods]
            rep.check(not bad, "R15.2", cq, "defines %s" % bad, "%s:%d" % (ci.module.relpath, ci.node.lineno), "%s defines neither __bool__ nor __len__ (MRO: %s)" % (ci.name, [c.name for c in index.mro(ci)]),
                      "%s (or a base) defines %s: the internal/leaf filters `(x and ... ) or None` and `x.is_leaf() and x or None` rely on every node/edge being truthy; a falsy node (e.g. a leaf with __len__ == 0) silently disappears from the leaf and internal iterators" % (cq, bad))

    # ---- R15.3
    with rep.section("R15.3"):
        wrappers = [("preorder_node_iter", "preorder_iter"), ("preorder_internal_node_iter", "preorder_internal_node_iter"), ("postorder_node_iter", "postorder_iter"),
                    ("postorder_internal_node_iter", "postorder_internal_node_iter"), ("levelorder_node_iter", "levelorder_iter"), ("level_order_node_iter", "levelorder_iter"),
                    ("inorder_node_iter", "inorder_iter"), ("leaf_node_iter", "leaf_iter"), ("leaf_iter", "leaf_iter"), ("ageorder_node_iter", "ageorder_iter")]
        for name, target in wrappers:
            f = index.function(TREE + "." + name)
            cs = [c for c in calls_in(f.node) if call_name(c) == target and norm(c.func.value) == "self.seed_node"]
            ok = len(cs) == 1
            rep.check(ok, "R15.3", f.qualname, "calls self.seed_node.%s" % target, fn_where(f), "%s delegates to seed_node.%s" % (name, target), "%s no longer delegates to self.seed_node.%s" % (f.qualname, target))
            if not ok:
                continue
            for p in f.all_params:
                if p == "self":
                    continue
                v = get_kwarg(cs[0], p)
                okp = v is not None and norm(v) == p
                rep.check(okp, "R15.3", f.qualname, "parameter %s not forwarded" % p, fn_where(f, cs[0]), "%s forwards %s=%s" % (name, p, p),
                          "%s does not forward its `%s` argument to seed_node.%s: the filter/option is silently ignored" % (f.qualname, p, target))
        f = index.function(TREE + ".apply")
        cs = [c for c in calls_in(f.node) if call_name(c) == "apply"]
        ok = len(cs) == 1 and [norm(a) for a in cs[0].args] + [norm(k.value) for k in cs[0].keywords] == ["before_fn", "after_fn", "leaf_fn"]
        rep.check(ok, "R15.3", f.qualname, "apply forwards its callbacks in order", fn_where(f), "Tree.apply forwards (before_fn, after_fn, leaf_fn)", "Tree.apply no longer forwards its three callbacks in order")

    # ---- R15.4
    with rep.section("R15.4"):
        f = index.function(TREE + ".__len__")
        loops = [l for l in walk_no_nested(f.node) if isinstance(l, ast.For)]
        ok = len(loops) == 1 and norm(loops[0].iter) in ("self.seed_node.leaf_iter()", "self.leaf_node_iter()", "self.seed_node.leaf_nodes()")
        incs = [n for n in walk_no_nested(f.node) if isinstance(n, ast.AugAssign) and const_value(n.value) == 1]
        direct = [n for n in walk_no_nested(f.node) if isinstance(n, ast.Return) and n.value is not None and any(k in norm(n.value) for k in ("leaf_iter(", "leaf_nodes(", "leaf_node_iter("))]
        rep.check((ok and len(incs) == 1) or bool(direct), "R15.4", f.qualname, "counts leaves", fn_where(f), "len(tree) counts seed_node.leaf_iter()", "Tree.__len__ no longer counts the leaves of the tree")
        # every value returned is that count: no shortcut through cached data (a stored encoding is not kept current by structural edits)
        rets = [r for r in walk_no_nested(f.node) if isinstance(r, ast.Return) and r.value is not None]
        counter = {norm(n.target) for n in incs}
        badr = [r for r in rets if not ((isinstance(r.value, ast.Name) and r.value.id in counter) or any(k in norm(r.value) for k in ("leaf_iter(", "leaf_nodes(", "leaf_node_iter(")))]
        rep.check(not badr, "R15.4", f.qualname, "len(tree) returned from something other than the leaf count: %s" % (norm(badr[0].value)[:50] if badr else ""), fn_where(f, badr[0] if badr else None), "every return of Tree.__len__ is the leaf count",
                  "Tree.__len__ can return `%s`, which is not a count of the current leaves: cached bipartition data are only as current as the last encode, so after a structural edit (pruning, adding a child, re-seeding without update) len(tree) no longer is the number of leaves" % (norm(badr[0].value)[:70] if badr else ""))

    # ---- R15.7
    with rep.section("R15.7"):
        rep.rule("R15.7", "traversals only read: no iterator / callback walk of Node or Tree stores to, or calls a mutator on, a link field (_child_nodes, _parent_node, _edge ...), not even through a local alias of a child list")
        LINKS = ("_child_nodes", "_parent_node", "_edge", "_head_node", "_tail_node", "_seed_node")
        nit = 0
        for cq in (NODE, TREE):
            for fi in index.methods_of(cq):
                if not (fi.name.endswith("_iter") or fi.name in ("apply", "__iter__", "leaf_nodes", "internal_nodes", "nodes", "edges", "leaf_edges", "internal_edges")):
                    continue
                nit += 1
                bad = [w for w in writes_in(fi.node) if w.attr in LINKS]
                rep.check(not bad, "R15.7", fi.qualname, "traversal writes %s: %s" % (bad[0].attr if bad else "", norm_stmt(bad[0].stmt)[:60] if bad else ""), fn_where(fi, bad[0].stmt if bad else None),
                          "%s does not write the tree" % fi.qualname,
                          "%s modifies the link field `%s` (`%s`%s): iterating must leave the tree as it was - here the traversal consumes the very child list it walks, so a second traversal (of any kind) no longer sees those nodes" % (fi.qualname, bad[0].attr if bad else "", norm_stmt(bad[0].stmt)[:70] if bad else "", ", through the alias `%s`" % bad[0].via_alias if bad and bad[0].via_alias else ""))
        rep.floor("R15.7", "traversal functions of Node and Tree", 30, nit)

    # ---- R15.6
    with rep.section("R15.6"):
        rep.rule("R15.6", "age order: Node.ageorder_iter sorts every node of the subtree with the node's age as the PRIMARY key, and reverses exactly when `descending` is set")
        af = index.function(NODE + ".ageorder_iter")
        sorts = [c for c in calls_in(af.node) if (call_name(c) == "sort" and isinstance(c.func, ast.Attribute)) or (call_name(c) == "sorted" and isinstance(c.func, ast.Name))]
        if len(sorts) != 1:
            raise AnalysisError("R15.6: ageorder_iter: expected exactly one sort, found %d" % len(sorts))
        sc = sorts[0]
        key = get_kwarg(sc, "key")
        if key is None or not isinstance(key, (ast.Lambda, ast.Call)):
            raise AnalysisError("R15.6: ageorder_iter: the sort has no recognisable key (decorate-sort or named key function); shape not recognised")
        prim = None
        if isinstance(key, ast.Lambda) and len(key.args.args) == 1:
            b = key.body
            prim = b.elts[0] if isinstance(b, ast.Tuple) and b.elts else b
            okk = isinstance(prim, ast.Attribute) and prim.attr == "age" and isinstance(prim.value, ast.Name) and prim.value.id == key.args.args[0].arg
        elif isinstance(key, ast.Call) and norm(key.func).endswith("attrgetter") and key.args:
            okk = const_value(key.args[0]) == "age"
        else:
            okk = False
        rep.check(okk, "R15.6", af.qualname, "primary sort key is not the age: %s" % (norm(key)[:60] if key is not None else "no key"), fn_where(af, sc), "ageorder_iter sorts by the node's age first",
                  "Node.ageorder_iter sorts with key `%s`, whose primary component is not the node's age: whenever a tip is older than some internal node (tip-dated trees, ages set through set_node_age_fn) the nodes are not yielded in monotone age order" % (norm(key)[:80] if key is not None else None))
        rv = get_kwarg(sc, "reverse")
        okr = False
        if rv is not None and norm(rv) == "descending":
            okr = True
        elif isinstance(rv, ast.Name):
            pm = parent_map(af.node)
            defs = [n for n in walk_no_nested(af.node) if isinstance(n, ast.Assign) and norm(n.targets[0]) == rv.id]
            pol = set()
            for d in defs:
                iff = pm.get(d)
                if isinstance(iff, ast.If):
                    t_, tb_, fb_ = pos_if(iff)
                    if norm(t_) == "descending":
                        pol.add((d in tb_, const_value(d.value, None)))
            okr = pol == {(True, True), (False, False)} and len(defs) == 2
        rep.check(okr, "R15.6", af.qualname, "reverse flag is not `descending`", fn_where(af, sc), "the sort is reversed exactly when descending is requested",
                  "Node.ageorder_iter does not reverse its sort exactly when `descending` is truthy (reverse=%s)" % (norm(rv) if rv is not None else None))

    # ---- R15.5
    with rep.section("R15.5"):
        f = index.function(NODE + ".apply")
        climbs = [l for l in ast.walk(f.node) if isinstance(l, ast.While) and any(isinstance(n, ast.Assign) and norm(n.value).endswith("._parent_node") for n in ast.walk(l)) and l is not f.node.body[-1]]
        climbs = [l for l in climbs if "_parent_node" in norm(l.test)]
        if not climbs:
            raise AnalysisError("R15.5: upward climb in Node.apply not recognised")
        cfg = cfg_of(f)
        for l in climbs:
            # every climb step `v = v._parent_node` is taken only after `v is not self` has been established for the current v
            steps = [n for n in ast.walk(l) if isinstance(n, ast.Assign) and isinstance(n.targets[0], ast.Name) and norm(n.value) == n.targets[0].id + "._parent_node"]
            bounded = bool(steps)
            for st in steps:
                v = st.targets[0].id
                sn = stmt_nodes(cfg, st)
                tests = [t for t in cfg.nodes if t.kind == "test" and isinstance(t.ast, ast.Compare) and len(t.ast.ops) == 1 and isinstance(t.ast.ops[0], (ast.Is, ast.IsNot))
                         and {norm(t.ast.left), norm(t.ast.comparators[0])} == {v, "self"}]
                passed = {(t.id, "t" if isinstance(t.ast.ops[0], ast.IsNot) else "f") for t in tests}
                eo = lambda s_, lab, d_: (s_.id, lab) not in passed
                from_entry = cfg.reach([cfg.entry], follow_exc=False, edge_ok=eo)
                from_step = cfg.reach(cfg.succ_after(sn[0]), follow_exc=False, edge_ok=eo) if sn else []
                if not sn or any(x is sn[0] for x in from_entry) or any(x is sn[0] for x in from_step):
                    bounded = False
            # the three callbacks are independent: the climb that fires after_fn runs whether or not leaf_fn / before_fn were given
            cbs = [p_ for p_ in f.params if p_.endswith("_fn")]
            for cb in cbs:
                tests = {t.id for t in cfg.nodes if t.kind == "test" and names_in(t.ast) == {cb}}
                if not tests:
                    continue
                def absent(s_, lab, d_, tests=tests):
                    if s_.id not in tests:
                        return True
                    cp_ = compare_parts(s_.ast)
                    truthy_edge = "t" if (cp_ is None or cp_[1] == "IsNot") else "f"      # `cb` / `cb is not None` true  <=>  callback given
                    return lab != truthy_edge
                reach = cfg.reach([cfg.entry], follow_exc=False, edge_ok=absent)
                for st in steps:
                    sn_ = stmt_nodes(cfg, st)
                    okc = bool(sn_) and any(x is sn_[0] for x in reach)
                    rep.check(okc, "R15.5", f.qualname, "climb not reached when %s is not given" % cb, fn_where(f, st), "the climb that closes finished subtrees runs also without %s" % cb,
                              "Node.apply reaches the upward climb (which fires after_fn for every finished internal node) only when `%s` was given: called with after_fn but without %s it never closes a bracket" % (cb, cb))
            rep.check(bounded, "R15.5", f.qualname, "climb `%s` not bounded by the start node" % norm(l.test)[:70], fn_where(f, l), "the upward climb in Node.apply stops at the start node",
                      "Node.apply climbs towards the root with `while %s` and never compares with the start node `self`: started on a subtree whose root is the last child of its parent, it calls after_fn on ancestors that never received before_fn (bracket mismatch)" % norm(l.test)[:90])

    # ---- R15.8 nothing is yielded past the filter
    with rep.section("R15.8"):
        rep.rule("R15.8", "nothing is yielded past the filter: in every generator of Tree / Node that takes filter_fn, each yield is either dominated by a test on filter_fn or re-yields from a call that was handed the filter")
        ny = 0
        for m in (TM + "_tree", TM + "_node"):
            for f in index.functions_in_module(m):
                if "filter_fn" not in f.params:
                    continue
                ys = [y for y in walk_no_nested(f.node) if isinstance(y, (ast.Yield, ast.YieldFrom))]
                if not ys:
                    continue
                g = cfg_of(f)
                pm = parent_map(f.node)
                for y in ys:
                    ny += 1
                    # delegated: `for x in <call(... filter_fn ...)>: yield x`  /  `yield from <call(... filter_fn ...)>`
                    delegated = False
                    if isinstance(y, ast.YieldFrom):
                        delegated = any(isinstance(z, ast.Name) and z.id == "filter_fn" for z in ast.walk(y.value))
                    q = pm.get(y)
                    while q is not None and q is not f.node and not delegated:
                        if isinstance(q, ast.For) and any(isinstance(z, ast.Name) and z.id == "filter_fn" for z in ast.walk(q.iter)) and isinstance(y.value, ast.Name) and any(isinstance(t, ast.Name) and t.id == y.value.id for t in ast.walk(q.target)):
                            delegated = True
                        q = pm.get(q)
                    if delegated:
                        rep.ob("R15.8", fn_where(f, y), "%s: `%s` re-yields from a call that received the filter" % (f.qualname, norm(y)[:40]), True)
                        continue
                    st = pm.get(y)
                    while st is not None and not isinstance(st, ast.stmt):
                        st = pm.get(st)
                    nodes = g.nodes_of_stmt(st)
                    ok = bool(nodes) and all(g.dominated_by(nd, lambda x: x.kind == "test" and any(isinstance(z, ast.Name) and z.id == "filter_fn" for z in ast.walk(x.ast)), follow_exc=False) for nd in nodes)
                    rep.check(ok, "R15.8", f.qualname, "a yield that the filter cannot stop", fn_where(f, y), "%s: `%s` is dominated by a test on filter_fn" % (f.qualname, norm(y)[:40]),
                              "%s has a path to `%s` on which filter_fn was never consulted: on that path (a start node without children, a single-node tree) the item is delivered although the predicate rejects it, so the filtered and internal-only variants no longer yield exactly the passing subsequence" % (f.qualname, norm(y)[:40]))
        rep.floor("R15.8", "yields in filtered generators", 10, ny)

    # ---- R15.9 a predicate is present when it is not None
    with rep.section("R15.9"):
        rep.rule("R15.9", "a predicate is present when it is not None: every iterator of Tree / Node decides whether a filter was given by comparing filter_fn with None, as the pre- and post-order iterators do - a callable whose truth value is False (a set-like predicate object that is empty) must still filter")
        nt = 0
        for m in (TM + "_tree", TM + "_node"):
            for f in index.functions_in_module(m):
                if "filter_fn" not in f.params:
                    continue
                g = cfg_of(f)
                for t in g.nodes:
                    if t.kind == "test" and isinstance(t.ast, ast.Name) and t.ast.id == "filter_fn":
                        nt += 1
                        rep.check(False, "R15.9", f.qualname, "filter_fn tested by truthiness", fn_where(f, t.stmt), "",
                                  "%s decides with `if filter_fn:` whether a filter was given: a predicate object that is callable but falsy (an empty set subclass with __call__, any object defining __len__ / __bool__) is treated as absent and everything is yielded, while preorder_iter / postorder_iter, which test `filter_fn is None`, apply it" % f.qualname)
                    elif t.kind == "test" and isinstance(t.ast, ast.Compare) and norm(t.ast.left) == "filter_fn" and is_none(t.ast.comparators[0]):
                        nt += 1
                        rep.ob("R15.9", fn_where(f, t.stmt), "%s: `%s`" % (f.qualname, norm(t.ast)), True)
        rep.floor("R15.9", "presence tests of filter_fn", 8, nt)

    # ---- R15.10 a traversal that picks children by position knows how many there are
    with rep.section("R15.10"):
        rep.rule("R15.10", "a traversal that picks children by position has established the exact number of children: in every iterator of Node / Tree a constant subscript of `_child_nodes` is reachable only through the true branch of a test `len(<node>._child_nodes) == N` with N greater than the index - otherwise children beyond the ones named are silently left out of the walk")
        n10 = 0
        for cq in (NODE, TREE):
            for fi in index.methods_of(cq):
                if not (fi.name.endswith("_iter") or fi.name in ("apply", "__iter__")):
                    continue
                g = cfg_of(fi)
                for n in g.nodes:
                    for e in node_exprs(n) + ([n.ast] if n.kind == "forinit" else []):
                        if e is None:
                            continue
                        for sub in ast.walk(e):
                            if not (isinstance(sub, ast.Subscript) and isinstance(sub.value, ast.Attribute) and sub.value.attr == "_child_nodes" and isinstance(sub.slice, ast.Constant) and isinstance(sub.slice.value, int) and sub.slice.value >= 0):
                                continue
                            n10 += 1
                            base = norm(sub.value)
                            k = sub.slice.value

                            def edge_ok(s, l, d, base=base, k=k):
                                if s.kind == "test" and l == "t" and isinstance(s.ast, ast.Compare) and len(s.ast.ops) == 1 and isinstance(s.ast.ops[0], ast.Eq):
                                    a, b = s.ast.left, s.ast.comparators[0]
                                    for x, y in ((a, b), (b, a)):
                                        if isinstance(y, ast.Constant) and isinstance(y.value, int) and y.value > k and norm(x) == "len(%s)" % base:
                                            return False
                                return True
                            seen = g.reach([g.entry], follow_exc=False, edge_ok=edge_ok)
                            rep.check(n not in seen, "R15.10", fi.qualname, "`%s[%d]` without an exact child count" % (base, k), fn_where(fi, sub),
                                      "%s: `%s[%d]` only under len(%s) == N" % (fi.name, base, k, base),
                                      "%s reads `%s[%d]` on a path that has not established `len(%s) == N`: a node with more children than the walk names has the others left out without an error (the in-order walk is defined for binary nodes only and refuses anything else)" % (fi.qualname, base, k, base))
        rep.floor("R15.10", "positional child reads in iterators", 2, n10)

    # ---- R15.11 the caller's filter sees only what the iterator would yield
    with rep.section("R15.11"):
        rep.rule("R15.11", "the caller's filter sees only the kind of node the iterator yields: in the leaf / internal-node iterators of Node and Tree the composite predicate `<structural test> and filter_fn(x)` puts the structural test (is_leaf(), `_child_nodes`, the seed test) FIRST - `and` short-circuits, so a filter written for leaves (`lambda nd: nd.taxon.label in wanted`) is never called on an internal node, whose taxon is None")
        n11 = 0
        for mod in (TM + "_node", TM + "_tree"):
            for f in index.functions_in_module(mod):
                if not (("leaf" in f.name or "internal" in f.name) and "iter" in f.name):
                    continue
                for lam in [x for x in ast.walk(f.node) if isinstance(x, ast.Lambda)]:
                    for b in [x for x in ast.walk(lam.body) if isinstance(x, ast.BoolOp) and isinstance(x.op, ast.And)]:
                        pos = [i for i, v in enumerate(b.values) if any(isinstance(c, ast.Call) and isinstance(c.func, ast.Name) and c.func.id == "filter_fn" for c in ast.walk(v))]
                        if not pos:
                            continue
                        n11 += 1
                        rep.check(pos[0] == len(b.values) - 1, "R15.11", f.qualname, "the caller's filter is evaluated before the structural test", fn_where(f, lam), "%s: `%s` tests the node kind first" % (f.name, norm(b)[:50]),
                                  "%s builds the predicate `%s`: the caller's filter runs BEFORE the test that says what kind of node this is, so it is called on nodes the iterator would never yield - a leaf filter such as `lambda nd: nd.taxon.label in wanted` raises AttributeError on the first internal node instead of selecting leaves" % (f.qualname, norm(b)[:60]))
        rep.floor("R15.11", "composite predicates with a caller's filter in the leaf / internal-node iterators", 3, n11)
