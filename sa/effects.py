"""Attribute-level effect extraction: stores, subscript stores, deletes and
mutating calls on attributes, including through simple local aliases."""
import ast

from .index import walk_no_nested, norm

MUTATORS = {
    "append", "insert", "remove", "pop", "clear", "sort", "reverse", "extend",
    "__setitem__", "__delitem__", "update", "setdefault", "add", "discard",
    "popitem", "appendleft", "popleft", "difference_update", "intersection_update",
    "symmetric_difference_update",
}
LENGTH_CHANGING = {"append", "insert", "remove", "pop", "clear", "extend", "__delitem__"}


class Write(object):
    __slots__ = ("kind", "attr", "base", "node", "stmt", "value", "via_alias", "method", "call")

    def __init__(self, kind, attr, base, node, stmt, value=None, via_alias=None, method=None, call=None):
        self.kind = kind          # 'store' | 'augstore' | 'substore' | 'del' | 'subdel' | 'mutcall'
        self.attr = attr
        self.base = base          # ast expr of the object owning the attribute (may be None for alias)
        self.node = node
        self.stmt = stmt
        self.value = value        # stored value expr for 'store'
        self.via_alias = via_alias
        self.method = method      # for mutcall
        self.call = call

    @property
    def base_text(self):
        return norm(self.base) if self.base is not None else "?"

    def __repr__(self):
        return "<Write %s %s.%s L%s>" % (self.kind, self.base_text, self.attr, getattr(self.stmt, "lineno", "?"))


def _load_of_attr(expr):
    """If expr evaluates to (an object reachable as) X.attr return (attr, X).
    Accepts X.attr, X.attr.setdefault(...), X.attr.get(...), X.attr[...]"""
    if isinstance(expr, ast.Attribute):
        return expr.attr, expr.value
    if isinstance(expr, ast.Call) and isinstance(expr.func, ast.Attribute) and expr.func.attr in ("setdefault", "get"):
        inner = expr.func.value
        if isinstance(inner, ast.Attribute):
            return inner.attr, inner.value
    return None


def local_aliases(fn_node):
    """name -> list of (attr, base expr) the local may alias (flow-insensitive)."""
    al = {}
    for n in walk_no_nested(fn_node):
        if isinstance(n, ast.Assign) and len(n.targets) == 1 and isinstance(n.targets[0], ast.Name):
            r = _load_of_attr(n.value)
            if r is not None:
                al.setdefault(n.targets[0].id, []).append(r)
    return al


def _targets(t):
    if isinstance(t, (ast.Tuple, ast.List)):
        for e in t.elts:
            for x in _targets(e):
                yield x
    elif isinstance(t, ast.Starred):
        for x in _targets(t.value):
            yield x
    else:
        yield t


_WCACHE = {}


def writes_in(fn_node, nested=False):
    """All attribute writes in the function body (cached per AST node)."""
    k = (id(fn_node), nested)
    r = _WCACHE.get(k)
    if r is None:
        r = _writes_in(fn_node, nested)
        _WCACHE[k] = r
    return r


def _writes_in(fn_node, nested=False):
    out = []
    aliases = local_aliases(fn_node)
    it = ast.walk(fn_node) if nested else walk_no_nested(fn_node)
    stmts = [n for n in it if isinstance(n, ast.stmt)]
    for s in stmts:
        if isinstance(s, (ast.Assign, ast.AnnAssign)):
            tgts = s.targets if isinstance(s, ast.Assign) else [s.target]
            for tt in tgts:
                for t in _targets(tt):
                    _record_target(out, t, s, "store", s.value, aliases)
        elif isinstance(s, ast.AugAssign):
            _record_target(out, s.target, s, "augstore", s.value, aliases)
        elif isinstance(s, ast.Delete):
            for t in s.targets:
                _record_target(out, t, s, "del", None, aliases)
        elif isinstance(s, (ast.For, ast.AsyncFor)):
            for t in _targets(s.target):
                _record_target(out, t, s, "store", None, aliases)
        elif isinstance(s, (ast.With, ast.AsyncWith)):
            for item in s.items:
                if item.optional_vars is not None:
                    for t in _targets(item.optional_vars):
                        _record_target(out, t, s, "store", None, aliases)
    # mutating calls
    pm = {}
    for s in stmts:
        for c in _direct_exprs(s):
            for n in walk_no_nested(c) if not nested else ast.walk(c):
                if isinstance(n, ast.Call) and isinstance(n.func, ast.Attribute) and n.func.attr in MUTATORS:
                    recv = n.func.value
                    if isinstance(recv, ast.Attribute):
                        out.append(Write("mutcall", recv.attr, recv.value, n, s, method=n.func.attr, call=n))
                    elif isinstance(recv, ast.Name) and recv.id in aliases:
                        for attr, base in aliases[recv.id]:
                            out.append(Write("mutcall", attr, base, n, s, via_alias=recv.id, method=n.func.attr, call=n))
                    elif isinstance(recv, ast.Subscript) and isinstance(recv.value, ast.Attribute):
                        # X.attr[k].append(...) mutates an element held by attr
                        out.append(Write("mutcall", recv.value.attr, recv.value.value, n, s, method="[]." + n.func.attr, call=n))
                elif isinstance(n, ast.Call) and isinstance(n.func, ast.Name) and n.func.id == "setattr" and len(n.args) >= 2:
                    nm = n.args[1]
                    if isinstance(nm, ast.Constant) and isinstance(nm.value, str):
                        out.append(Write("store", nm.value, n.args[0], n, s, value=n.args[2] if len(n.args) > 2 else None))
    return out


def _direct_exprs(s):
    """Expressions evaluated directly by statement s (not its sub-statements)."""
    for field, value in ast.iter_fields(s):
        if isinstance(value, ast.expr):
            yield value
        elif isinstance(value, list):
            for v in value:
                if isinstance(v, ast.expr):
                    yield v
                elif isinstance(v, ast.withitem):
                    yield v.context_expr
                elif isinstance(v, ast.keyword):
                    yield v.value


def _record_target(out, t, s, kind, value, aliases):
    if isinstance(t, ast.Attribute):
        out.append(Write(kind, t.attr, t.value, t, s, value=value))
    elif isinstance(t, ast.Subscript):
        k = "substore" if kind != "del" else "subdel"
        v = t.value
        if isinstance(v, ast.Attribute):
            out.append(Write(k, v.attr, v.value, t, s, value=value))
        elif isinstance(v, ast.Name) and v.id in aliases:
            for attr, base in aliases[v.id]:
                out.append(Write(k, attr, base, t, s, value=value, via_alias=v.id))
        elif isinstance(v, ast.Subscript) and isinstance(v.value, ast.Attribute):
            out.append(Write(k, v.value.attr, v.value.value, t, s, value=value))


def attr_reads(node, nested=False):
    """(attr, base expr, node) for every attribute load under node."""
    it = ast.walk(node) if nested else walk_no_nested(node)
    for n in it:
        if isinstance(n, ast.Attribute) and isinstance(n.ctx, ast.Load):
            yield n.attr, n.value, n


def name_stores(fn_node):
    """Names assigned anywhere in the function (not nested)."""
    out = set()
    for n in walk_no_nested(fn_node):
        if isinstance(n, ast.Name) and isinstance(n.ctx, (ast.Store, ast.Del)):
            out.add(n.id)
    return out
