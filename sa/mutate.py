"""Self-validation of the rules on scratch copies (thorough tier).  See sa/mutants/."""
import importlib


def run_corpus(prop, root):
    try:
        mod = importlib.import_module("sa.mutants.%s" % prop.lower())
    except ImportError:
        return {"mutants_total": 0, "mutants_note": "no mutant corpus registered for this property yet"}
    from .mutants import harness
    return harness.run(prop, root, mod)
