"""Self-validation of the rules on scratch copies (thorough tier).  See sa/mutants/."""
import importlib


def run_corpus(prop, root):
    from .mutants import harness, autotwins
    try:
        mod = importlib.import_module("sa.mutants.%s" % prop.lower())
    except ImportError:
        mod = None
    out = harness.run(prop, root, mod) if mod is not None else {"mutants_total": 0, "mutant_failures": [], "mutant_results": []}
    out.setdefault("mutant_failures", [])
    out.setdefault("mutant_results", [])
    # automatic behaviour-preserving rewrites of every consulted module
    twins = autotwins.run(prop, root)
    out["auto_twins"] = twins
    for t in twins:
        if t["status"] == "TWIN-ALARM":
            out["mutant_failures"].append("%s: TWIN-ALARM %s" % (t["name"], [(a["rule"], a["function"].rsplit(".", 1)[-1]) for a in t.get("alarms", [])][:4]))
    out["auto_twin_rule"] = ("every module the property consults is rewritten (all locals renamed; re-emitted by ast.unparse) on a scratch copy; "
                             "the rules may refuse to answer but must not report a violation")
    return out
