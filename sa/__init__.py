"""Repository-specific static analysis of DendroPy (see /verif/DESIGN.md).

Nothing in this package imports or executes ``dendropy``; every verdict is
derived from the source text under ``<root>/src/dendropy``.
"""
