"""Program index: modules, classes (with MRO), functions, properties, callee
resolution.  Pure ``ast``; the analysed program is never imported."""
import ast
import hashlib
import os

EXCLUDED_DIRS = ("legacy", "interop", os.path.join("utility", "libexec"), "test")


class AnalysisError(Exception):
    """The checker cannot answer (vanished anchor, unknown shape, floor)."""


def norm(node):
    """Normalised text of an AST node (formatting/comment independent)."""
    try:
        return ast.unparse(node)
    except Exception:  # pragma: no cover
        return "<unparse-failed>"


def norm_stmt(node, limit=160):
    """Normalised header text of a statement (first line only for compound)."""
    txt = norm(node)
    first = txt.split("\n", 1)[0]
    return first[:limit]


class Module(object):
    def __init__(self, name, path, relpath, src):
        self.name = name
        self.path = path
        self.relpath = relpath
        self.src = src
        self.tree = ast.parse(src, filename=path)
        if os.environ.get("SA_CANON", "1") != "0":
            from .normalize import canonical
            self.tree = canonical(self.tree)
        self.digest = hashlib.sha256(src.encode("utf-8")).hexdigest()
        self.imports = {}      # local name -> dotted target
        self.classes = {}      # name -> ClassInfo (top level)
        self.functions = {}    # name -> FunctionInfo (top level)
        self.assigns = {}      # top-level NAME = <expr> -> ast expr
        self.is_package = os.path.basename(path) == "__init__.py"


class ClassInfo(object):
    def __init__(self, name, module, node, outer=None):
        self.name = name
        self.module = module
        self.node = node
        self.outer = outer
        self.qualname = (outer.qualname + "." + name) if outer else (module.name + "." + name)
        self.methods = {}
        self.properties = {}   # name -> (fget name, fset name, fdel name)
        self.class_attrs = {}  # name -> ast expr
        self.inner = {}
        self.bases = []        # resolved ClassInfo
        self.base_exprs = list(node.bases)
        self._mro = None

    def __repr__(self):
        return "<Class %s>" % self.qualname


class FunctionInfo(object):
    def __init__(self, name, module, node, cls=None, outer=None):
        self.name = name
        self.module = module
        self.node = node
        self.cls = cls
        self.outer = outer
        if cls is not None:
            self.qualname = cls.qualname + "." + name
        elif outer is not None:
            self.qualname = outer.qualname + ".<locals>." + name
        else:
            self.qualname = module.name + "." + name
        a = node.args
        self.params = [x.arg for x in (a.posonlyargs + a.args)]
        self.kwonly = [x.arg for x in a.kwonlyargs]
        self.vararg = a.vararg.arg if a.vararg else None
        self.kwarg = a.kwarg.arg if a.kwarg else None
        self.decorators = [norm(d) for d in node.decorator_list]

    @property
    def is_static(self):
        return "staticmethod" in self.decorators

    @property
    def is_classmethod(self):
        return "classmethod" in self.decorators

    @property
    def all_params(self):
        r = list(self.params) + list(self.kwonly)
        if self.vararg:
            r.append(self.vararg)
        if self.kwarg:
            r.append(self.kwarg)
        return r

    @property
    def where(self):
        return "%s:%d" % (self.module.relpath, self.node.lineno)

    def __repr__(self):
        return "<Function %s>" % self.qualname


class Index(object):
    def __init__(self, root):
        self.root = os.path.abspath(root)
        self.srcroot = os.path.join(self.root, "src")
        self.pkgroot = os.path.join(self.srcroot, "dendropy")
        if not os.path.isdir(self.pkgroot):
            raise AnalysisError("no src/dendropy under %s" % self.root)
        self.modules = {}
        self.functions = {}   # qualname -> FunctionInfo (top-level + methods + nested classes' methods)
        self.classes = {}     # qualname -> ClassInfo
        self.methods_by_name = {}  # name -> [FunctionInfo]
        self.consulted = set()
        self._load()
        self._link()

    # ------------------------------------------------------------------ load
    def _load(self):
        for dirpath, dirnames, filenames in os.walk(self.pkgroot):
            rel = os.path.relpath(dirpath, self.pkgroot)
            if rel == ".":
                rel = ""
            dirnames[:] = sorted(
                d for d in dirnames
                if not d.startswith("__pycache__")
                and not any(os.path.join(rel, d) == e or os.path.join(rel, d).startswith(e + os.sep) for e in EXCLUDED_DIRS))
            for fn in sorted(filenames):
                if not fn.endswith(".py"):
                    continue
                path = os.path.join(dirpath, fn)
                parts = ["dendropy"] + ([p for p in rel.split(os.sep) if p] if rel else [])
                if fn != "__init__.py":
                    parts.append(fn[:-3])
                name = ".".join(parts)
                with open(path, encoding="utf-8") as f:
                    src = f.read()
                try:
                    m = Module(name, path, os.path.relpath(path, self.root), src)
                except SyntaxError as e:
                    raise AnalysisError("cannot parse %s: %s" % (path, e))
                self.modules[name] = m
                self._scan_module(m)

    def _scan_module(self, m):
        pkg = m.name if m.is_package else m.name.rsplit(".", 1)[0]
        for node in ast.walk(m.tree):
            # imports anywhere in the module (function-level imports are common)
            if isinstance(node, ast.Import):
                for al in node.names:
                    if al.asname:
                        m.imports.setdefault(al.asname, al.name)
                    else:
                        m.imports.setdefault(al.name.split(".")[0], al.name.split(".")[0])
            elif isinstance(node, ast.ImportFrom):
                base = node.module or ""
                if node.level:
                    pp = pkg.split(".")
                    if node.level > 1:
                        pp = pp[: -(node.level - 1)]
                    base = ".".join(pp + ([base] if base else []))
                for al in node.names:
                    if al.name == "*":
                        m.imports.setdefault("*" + base, base)
                        continue
                    m.imports.setdefault(al.asname or al.name, base + "." + al.name)
        for node in m.tree.body:
            self._scan_toplevel(m, node)

    def _scan_toplevel(self, m, node):
        if isinstance(node, ast.ClassDef):
            self._scan_class(m, node, None)
        elif isinstance(node, (ast.FunctionDef, ast.AsyncFunctionDef)):
            fi = FunctionInfo(node.name, m, node)
            m.functions[node.name] = fi
            self.functions[fi.qualname] = fi
        elif isinstance(node, ast.Assign):
            for t in node.targets:
                if isinstance(t, ast.Name):
                    m.assigns[t.id] = node.value
        elif isinstance(node, (ast.If, ast.Try)):
            for sub in ast.iter_child_nodes(node):
                if isinstance(sub, ast.stmt):
                    self._scan_toplevel(m, sub)

    def _scan_class(self, m, node, outer):
        ci = ClassInfo(node.name, m, node, outer)
        if outer is None:
            m.classes[node.name] = ci
        else:
            outer.inner[node.name] = ci
        self.classes[ci.qualname] = ci
        for sub in node.body:
            if isinstance(sub, (ast.FunctionDef, ast.AsyncFunctionDef)):
                fi = FunctionInfo(sub.name, m, sub, cls=ci)
                # property via decorator
                for d in sub.decorator_list:
                    dn = norm(d)
                    if dn == "property":
                        g, s, dl = ci.properties.get(sub.name, (None, None, None))
                        ci.properties[sub.name] = (sub.name + "@getter", s, dl)
                        fi.name_in_class = sub.name + "@getter"
                    elif dn.endswith(".setter"):
                        g, s, dl = ci.properties.get(sub.name, (None, None, None))
                        ci.properties[sub.name] = (g, sub.name + "@setter", dl)
                        fi.name_in_class = sub.name + "@setter"
                    elif dn.endswith(".deleter"):
                        g, s, dl = ci.properties.get(sub.name, (None, None, None))
                        ci.properties[sub.name] = (g, s, sub.name + "@deleter")
                        fi.name_in_class = sub.name + "@deleter"
                key = getattr(fi, "name_in_class", sub.name)
                if key != sub.name:
                    fi.qualname = ci.qualname + "." + key
                ci.methods[key] = fi
                self.functions[fi.qualname] = fi
                self.methods_by_name.setdefault(sub.name, []).append(fi)
            elif isinstance(sub, ast.ClassDef):
                self._scan_class(m, sub, ci)
            elif isinstance(sub, ast.Assign):
                for t in sub.targets:
                    if isinstance(t, ast.Name):
                        ci.class_attrs[t.id] = sub.value
                        v = sub.value
                        if isinstance(v, ast.Call) and norm(v.func) == "property":
                            names = [None, None, None]
                            for i, a in enumerate(v.args[:3]):
                                if isinstance(a, ast.Name):
                                    names[i] = a.id
                            for kw in v.keywords:
                                idx = {"fget": 0, "fset": 1, "fdel": 2}.get(kw.arg)
                                if idx is not None and isinstance(kw.value, ast.Name):
                                    names[idx] = kw.value.id
                            ci.properties[t.id] = tuple(names)

    # ------------------------------------------------------------------ link
    def _link(self):
        for ci in self.classes.values():
            for be in ci.base_exprs:
                r = None
                # a nested class names its siblings without qualification
                if isinstance(be, ast.Name):
                    o = ci.outer
                    while o is not None and r is None:
                        r = o.inner.get(be.id)
                        o = o.outer
                if r is None:
                    r = self.resolve_expr(ci.module, be)
                if isinstance(r, ClassInfo):
                    ci.bases.append(r)

    def mro(self, ci):
        if ci._mro is None:
            out = []
            seen = set()

            def rec(c):
                if c.qualname in seen:
                    return
                seen.add(c.qualname)
                out.append(c)
                for b in c.bases:
                    rec(b)
            rec(ci)
            ci._mro = out
        return ci._mro

    def is_subclass(self, ci, other_qualname):
        return any(c.qualname == other_qualname for c in self.mro(ci))

    def find_method(self, ci, name):
        for c in self.mro(ci):
            if name in c.methods:
                return c.methods[name]
        return None

    def find_property(self, ci, name):
        for c in self.mro(ci):
            if name in c.properties:
                return c, c.properties[name]
        return None

    # ------------------------------------------------------- name resolution
    def resolve_dotted(self, dotted, _depth=0):
        """Resolve 'dendropy.x.y.Z' to Module / ClassInfo / FunctionInfo / None."""
        if _depth > 8 or not dotted:
            return None
        if dotted in self.modules:
            return self.modules[dotted]
        parts = dotted.split(".")
        for i in range(len(parts) - 1, 0, -1):
            mn = ".".join(parts[:i])
            if mn in self.modules:
                obj = self.modules[mn]
                for attr in parts[i:]:
                    obj = self._attr_of(obj, attr, _depth)
                    if obj is None:
                        return None
                return obj
        return None

    def _attr_of(self, obj, attr, _depth=0):
        if isinstance(obj, Module):
            if attr in obj.classes:
                return obj.classes[attr]
            if attr in obj.functions:
                return obj.functions[attr]
            sub = obj.name + "." + attr
            if sub in self.modules:
                return self.modules[sub]
            if attr in obj.imports:
                return self.resolve_dotted(obj.imports[attr], _depth + 1)
            for k, base in obj.imports.items():
                if k.startswith("*"):
                    r = self.resolve_dotted(base + "." + attr, _depth + 1)
                    if r is not None:
                        return r
            if attr in obj.assigns:
                v = obj.assigns[attr]
                if isinstance(v, (ast.Name, ast.Attribute)):
                    return self.resolve_expr(obj, v, _depth + 1)
            return None
        if isinstance(obj, ClassInfo):
            if attr in obj.inner:
                return obj.inner[attr]
            m = self.find_method(obj, attr)
            return m
        return None

    def resolve_expr(self, module, expr, _depth=0):
        """Resolve a Name / dotted Attribute expression in module scope."""
        if isinstance(expr, ast.Name):
            return self._attr_of(module, expr.id, _depth)
        if isinstance(expr, ast.Attribute):
            base = self.resolve_expr(module, expr.value, _depth)
            if base is None:
                return None
            return self._attr_of(base, expr.attr, _depth)
        return None

    # ------------------------------------------------------- call resolution
    def resolve_call(self, call, fn):
        """Resolve a Call node appearing in function `fn`.

        Returns (grade, [FunctionInfo|ClassInfo...]) where grade is one of
        'self' (through the MRO of the enclosing class), 'static' (through
        imports / module scope / explicit class), 'name' (all repo methods of
        that name), 'unknown'.
        """
        f = call.func
        m = fn.module
        if isinstance(f, ast.Name):
            # nested function defined in fn?
            for sub in ast.walk(fn.node):
                if isinstance(sub, (ast.FunctionDef,)) and sub is not fn.node and sub.name == f.id:
                    return "static", [FunctionInfo(sub.name, m, sub, outer=fn)]
            r = self._attr_of(m, f.id)
            if isinstance(r, (FunctionInfo, ClassInfo)):
                return "static", [r]
            return "unknown", []
        if isinstance(f, ast.Attribute):
            v = f.value
            if isinstance(v, ast.Name) and v.id in ("self", "cls") and fn.cls is not None and not fn.is_static:
                meth = self.find_method(fn.cls, f.attr)
                if meth is not None:
                    return "self", [meth]
                # may be defined in subclasses only (template method)
                subs = [x for x in self.methods_by_name.get(f.attr, []) if x.cls and self.is_subclass(x.cls, fn.cls.qualname)]
                if subs:
                    return "self", subs
                return "unknown", []
            if isinstance(v, ast.Call) and isinstance(v.func, ast.Name) and v.func.id == "super" and fn.cls is not None:
                for c in self.mro(fn.cls)[1:]:
                    if f.attr in c.methods:
                        return "self", [c.methods[f.attr]]
                return "unknown", []
            r = self.resolve_expr(m, v)
            if isinstance(r, Module):
                t = self._attr_of(r, f.attr)
                if isinstance(t, (FunctionInfo, ClassInfo)):
                    return "static", [t]
                return "unknown", []
            if isinstance(r, ClassInfo):
                t = self._attr_of(r, f.attr)
                if isinstance(t, (FunctionInfo, ClassInfo)):
                    return "static", [t]
                return "unknown", []
            cands = self.methods_by_name.get(f.attr, [])
            if cands:
                return "name", list(cands)
            return "unknown", []
        return "unknown", []

    # ----------------------------------------------------------- accessors
    def function(self, qualname):
        fi = self.functions.get(qualname)
        if fi is None:
            raise AnalysisError("anchor vanished: function %s" % qualname)
        self.consulted.add(fi.module.name)
        return fi

    def klass(self, qualname):
        ci = self.classes.get(qualname)
        if ci is None:
            raise AnalysisError("anchor vanished: class %s" % qualname)
        self.consulted.add(ci.module.name)
        return ci

    def module(self, name):
        m = self.modules.get(name)
        if m is None:
            raise AnalysisError("anchor vanished: module %s" % name)
        self.consulted.add(name)
        return m

    def functions_in_module(self, modname, include_methods=True):
        m = self.module(modname)
        out = [f for f in self.functions.values() if f.module is m and (include_methods or f.cls is None)]
        out.sort(key=lambda f: f.node.lineno)
        return out

    def methods_of(self, class_qualname, inherited=False):
        ci = self.klass(class_qualname)
        if not inherited:
            return sorted(ci.methods.values(), key=lambda f: f.node.lineno)
        seen = {}
        for c in self.mro(ci):
            for k, v in c.methods.items():
                seen.setdefault(k, v)
        return list(seen.values())

    def digests(self):
        return {n: self.modules[n].digest for n in sorted(self.consulted)}


# ---------------------------------------------------------------- AST helpers

def walk_no_nested(node, include_self=True):
    """Walk a function body without descending into nested defs/lambdas/classes."""
    stack = [node]
    first = True
    while stack:
        n = stack.pop()
        if not first and isinstance(n, (ast.FunctionDef, ast.AsyncFunctionDef, ast.Lambda, ast.ClassDef)):
            continue
        if include_self or not first:
            yield n
        first = False
        stack.extend(reversed(list(ast.iter_child_nodes(n))))


def calls_in(node, nested=False):
    it = ast.walk(node) if nested else walk_no_nested(node)
    for n in it:
        if isinstance(n, ast.Call):
            yield n


def call_name(call):
    f = call.func
    if isinstance(f, ast.Attribute):
        return f.attr
    if isinstance(f, ast.Name):
        return f.id
    return None


def attr_chain(expr):
    """['self', 'a', 'b'] for self.a.b; None if not a pure name/attribute chain."""
    out = []
    while isinstance(expr, ast.Attribute):
        out.append(expr.attr)
        expr = expr.value
    if isinstance(expr, ast.Name):
        out.append(expr.id)
        return list(reversed(out))
    return None


def names_in(node):
    return {n.id for n in ast.walk(node) if isinstance(n, ast.Name)}


def get_kwarg(call, name):
    for kw in call.keywords:
        if kw.arg == name:
            return kw.value
    return None


def const_value(node, default=None):
    if isinstance(node, ast.Constant):
        return node.value
    return default


def parent_map(root):
    pm = {}
    for p in ast.walk(root):
        for c in ast.iter_child_nodes(p):
            pm[c] = p
    return pm


def enclosing_stmt(node, pm):
    while node is not None and not isinstance(node, ast.stmt):
        node = pm.get(node)
    return node
