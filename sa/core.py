"""Rule API, findings, known-findings handling, evidence writer, CLI driver."""
import json
import os
import sys
import time
import traceback
import importlib

from .index import Index, AnalysisError

VERIF = os.path.dirname(os.path.dirname(os.path.abspath(__file__)))
DEFAULT_ROOT = os.environ.get("SA_ROOT", "/repo")
KNOWN_FINDINGS = os.path.join(VERIF, "known_findings.json")
EVIDENCE_DIR = os.path.join(VERIF, "evidence")

PROPERTIES = ["C%02d" % i for i in range(1, 21)]


class Report(object):
    """Collects obligations and findings for one property run."""

    def __init__(self, prop, index):
        self.prop = prop
        self.index = index
        self.obligations = []   # dicts: rule, where, instance, verdict, detail
        self.findings = []      # dicts: rule, function, key, where, message
        self.notes = []
        self.rule_docs = {}     # rule id -> one-line description
        self.assumptions = []
        self.floors = []        # (rule, what, expected_min, found)
        self.unresolved_calls = 0
        self.extra = {}
        self.errors = []        # analysis errors of individual rule sections (the other sections still run)

    # -- rules ---------------------------------------------------------
    def rule(self, rid, doc):
        self.rule_docs[rid] = doc

    def ob(self, rule, where, instance, ok=True, detail=None, nontrivial=True):
        self.obligations.append({
            "rule": rule, "where": where, "instance": instance,
            "verdict": "discharged" if ok else "FAILED",
            "detail": detail, "nontrivial": bool(nontrivial)})

    def finding(self, rule, function, key, where, message):
        """key: normalised construct text (never a line number).  Local
        variable names of the reported function are replaced by positional
        placeholders, so that renaming a local does not change the key."""
        self.findings.append({
            "property": self.prop, "rule": rule, "function": function,
            "key": self.canonical_key(function, key), "where": where, "message": message})

    def canonical_key(self, function, key):
        fi = self.index.functions.get(function)
        if fi is None:
            return key
        locs = getattr(fi, "_locals", None)
        if locs is None:
            import ast as _ast
            params = set(fi.all_params)
            locs = set()
            for n in _ast.walk(fi.node):
                if isinstance(n, _ast.Name) and isinstance(n.ctx, (_ast.Store, _ast.Del)) and n.id not in params:
                    locs.add(n.id)
            fi._locals = locs
        if not locs:
            return key
        import re as _re
        order = {}

        def sub(m):
            w = m.group(0)
            if w in locs:
                if w not in order:
                    order[w] = "$%d" % (len(order) + 1)
                return order[w]
            return w
        return _re.sub(r"(?<![\w.'\"%])[A-Za-z_]\w*", sub, key)

    def check(self, cond, rule, function, key, where, instance, message):
        """Record an obligation; on failure also a finding."""
        self.ob(rule, where, instance, ok=bool(cond), detail=None if cond else message)
        if not cond:
            self.finding(rule, function, key, where, message)
        return bool(cond)

    def floor(self, rule, what, expected_min, found):
        """A rule that matches fewer instances than were confirmed by hand cannot be believed; the
        shortfall is an analysis error of that rule (exit 2 unless another rule reports a violation)."""
        self.floors.append((rule, what, expected_min, found))
        if found < expected_min:
            self.errors.append(
                "%s: instance floor not met for %s: expected >= %d, found %d "
                "(the rule would pass vacuously; anchors moved or extractor stale)"
                % (rule, what, expected_min, found))

    def section(self, name):
        """`with rep.section("R03.2"):` - an AnalysisError (unrecognised shape, vanished anchor) inside one
        rule's section is recorded and the remaining sections still run."""
        return _Section(self, name)

    def note(self, text):
        self.notes.append(text)

    def assume(self, text):
        if text not in self.assumptions:
            self.assumptions.append(text)


class _Section(object):
    def __init__(self, rep, name):
        self.rep = rep
        self.name = name

    def __enter__(self):
        return self

    def __exit__(self, et, ev, tb):
        if et is None:
            return False
        if issubclass(et, AnalysisError):
            self.rep.errors.append(str(ev))
            self.rep.aborted = getattr(self.rep, "aborted", []) + [self.name]
            return True
        if issubclass(et, (NameError, UnboundLocalError)) and getattr(self.rep, "aborted", None):
            # a value this section needs was to be produced by a section that could not answer
            self.rep.errors.append("%s: not evaluated, depends on a section that could not answer (%s)" % (self.name, ", ".join(self.rep.aborted)))
            return True
        return False


def fn_where(fi, node=None):
    ln = getattr(node, "lineno", None) if node is not None else None
    if ln is None:
        ln = fi.node.lineno
    return "%s:%d" % (fi.module.relpath, ln)


def load_known():
    if not os.path.exists(KNOWN_FINDINGS):
        return []
    with open(KNOWN_FINDINGS) as f:
        return json.load(f).get("findings", [])


def match_known(finding, known):
    for k in known:
        if k.get("status") != "open":
            continue
        if (k["property"] == finding["property"] and k["rule"] == finding["rule"]
                and k["function"] == finding["function"] and k["key"] == finding["key"]):
            return k
    return None


def reset_caches():
    """per-run caches are keyed by id(ast node): never carry them across two parses."""
    from . import effects
    from .rules import common
    effects._WCACHE.clear()
    common._CFG_CACHE.clear()
    try:
        from .rules import c20
        c20._EOF_OUTCOMES.clear()
    except Exception:
        pass


def run_property(prop, root=None, tier="quick"):
    """Run the rules of one property; returns (Report, wall seconds)."""
    t0 = time.time()
    reset_caches()
    index = Index(root or DEFAULT_ROOT)
    mod = importlib.import_module("sa.rules.%s" % prop.lower())
    rep = Report(prop, index)
    try:
        mod.run(index, rep, tier)
    except AnalysisError as e:
        rep.errors.append(str(e))
    try:
        from .rules import common
        common.generic_rules(prop, index, rep)
    except AnalysisError as e:
        rep.errors.append(str(e))
    return rep, time.time() - t0


def summarize(rep):
    per_rule = {}
    for o in rep.obligations:
        d = per_rule.setdefault(o["rule"], {"obligations": 0, "discharged": 0})
        d["obligations"] += 1
        if o["verdict"] == "discharged":
            d["discharged"] += 1
    return per_rule


def write_evidence(prop, tier, rep, wall, new_findings, known_matched, stale_known, extra=None, error=None):
    os.makedirs(EVIDENCE_DIR, exist_ok=True)
    seed = int(os.environ.get("VERIF_SEED", "0") or 0)
    obligations = rep.obligations if rep else []
    distinct = len({(o["rule"], o["where"].split(":")[0], o["instance"]) for o in obligations if o["nontrivial"]})
    samples = []
    seen_rules = {}
    for o in obligations:
        c = seen_rules.get(o["rule"], 0)
        if c < 4 or o["verdict"] != "discharged":
            samples.append({k: o[k] for k in ("rule", "where", "instance", "verdict", "detail")})
            seen_rules[o["rule"]] = c + 1
    rules_txt = "; ".join("%s: %s" % (k, v) for k, v in sorted((rep.rule_docs if rep else {}).items()))
    explanation = (
        "Static analysis (ast + hand-built CFG) of /repo/src/dendropy, re-parsed on this run; "
        "nothing is executed. Each rule decides a structural NECESSARY condition of the property, "
        "not the behaviour itself. Rules applied: " + rules_txt)
    if rep and rep.notes:
        explanation += " Notes: " + " | ".join(rep.notes)
    ev = {
        "property_id": prop,
        "tier": tier,
        "seed": seed,
        "level": "other",
        "coverage": {
            "explanation": explanation,
            "evaluations": len(obligations),
            "distinct_nontrivial": distinct,
            "rule": "one evaluation = one rule instance (call site / function / table entry / path obligation) "
                    "found in today's source; non-trivial = the instance constrained at least one concrete construct; "
                    "distinct = distinct (rule, file, instance) triples",
            "obligations": len(obligations),
            "discharged": sum(1 for o in obligations if o["verdict"] == "discharged"),
            "samples": samples[:120],
            "per_rule": summarize(rep) if rep else {},
            "instance_floors": [{"rule": r, "what": w, "min": m, "found": f} for r, w, m, f in (rep.floors if rep else [])],
            "modules_analysed": rep.index.digests() if rep else {},
            "modules_parsed": len(rep.index.modules) if rep else 0,
            "excluded": ["src/dendropy/legacy", "src/dendropy/interop", "src/dendropy/utility/libexec", "src/dendropy/test"],
            "exhaustive": True,
            "new_findings": new_findings,
            "known_findings_matched": known_matched,
            "stale_known_findings": stale_known,
        },
        "assumptions": (rep.assumptions if rep else []) + [
            "callee resolution without type information: self./import-resolved calls are exact, other receivers are resolved by method name (may-call all candidates)",
            "dynamic attribute access (setattr/getattr with computed names, __dict__ manipulation) is outside attribute-level effect analysis unless a rule says otherwise",
        ],
        "wall_s": round(wall, 3),
        "violations": len(new_findings),
    }
    if extra:
        ev["coverage"].update(extra)
    if rep and rep.extra:
        ev["coverage"].update(rep.extra)
    if error:
        ev["coverage"]["analysis_error"] = error
    path = os.path.join(EVIDENCE_DIR, "%s.json" % prop)
    with open(path, "w") as f:
        json.dump(ev, f, indent=1, sort_keys=False, default=str)
    return path


def main(argv=None):
    import argparse
    ap = argparse.ArgumentParser(prog="check")
    ap.add_argument("prop")
    ap.add_argument("--tier", default=os.environ.get("VERIF_TIER", "quick"), choices=["quick", "thorough"])
    ap.add_argument("--root", default=None)
    ap.add_argument("--no-evidence", action="store_true")
    ap.add_argument("--json", action="store_true", help="print findings as JSON (used by the mutant harness)")
    ap.add_argument("--replay", default=None)
    args = ap.parse_args(argv)
    prop = args.prop.upper()
    if args.replay:
        with open(args.replay) as f:
            print(json.dumps(json.load(f), indent=1))
        return 0
    t0 = time.time()
    rep = None
    try:
        if prop not in PROPERTIES:
            raise AnalysisError("unknown property %s" % prop)
        rep, wall = run_property(prop, args.root, args.tier)
        known = load_known()
        new, matched = [], []
        for f in rep.findings:
            k = match_known(f, known)
            if k is not None:
                matched.append({"rule": f["rule"], "function": f["function"], "key": f["key"], "what": k["what"]})
            else:
                new.append(f)
        matched_keys = {(m["rule"], m["function"], m["key"]) for m in matched}
        stale = [{"rule": k["rule"], "function": k["function"], "key": k["key"]}
                 for k in known if k.get("status") == "open" and k["property"] == prop
                 and (k["rule"], k["function"], k["key"]) not in matched_keys]
        extra = {}
        if args.tier == "thorough" and not args.json:
            from . import mutate
            extra = mutate.run_corpus(prop, args.root or DEFAULT_ROOT)
            selfval_failed = list(extra.get("mutant_failures") or [])
        if args.json:
            print(json.dumps({"findings": rep.findings, "obligations": len(rep.obligations)}))
            return 1 if new else 0
        seen_known = set()
        for m in matched:
            kk = (m["rule"], m["function"], m["key"])
            if kk in seen_known:
                continue
            seen_known.add(kk)
            print("KNOWN-FINDING: property=%s %s [%s %s]" % (prop, m["what"], m["rule"], m["function"]))
        replay_paths = []
        if new:
            os.makedirs(os.path.join(EVIDENCE_DIR, "replay"), exist_ok=True)
            for i, f in enumerate(new):
                rp = os.path.join(EVIDENCE_DIR, "replay", "%s_%d.json" % (prop, i))
                with open(rp, "w") as fh:
                    json.dump(f, fh, indent=1)
                replay_paths.append(rp)
                print("FINDING %s %s %s: %s  [construct: %s]" % (f["rule"], f["where"], f["function"], f["message"], f["key"]))
                print("VIOLATION property=%s replay=%s" % (prop, rp))
        wall = time.time() - t0
        if not args.no_evidence:
            write_evidence(prop, args.tier, rep, wall, new, matched, stale, extra, error="; ".join(rep.errors) if rep.errors else None)
        per = summarize(rep)
        print("%s %s: %d obligations over %d rules, %d new findings, %d known, %.2fs" % (
            prop, args.tier, len(rep.obligations), len(per), len(new), len(seen_known), wall))
        for err in rep.errors:
            print("ANALYSIS-ERROR property=%s %s" % (prop, err))
        if new:
            return 1
        if rep.errors:
            return 2
        if args.tier == "thorough" and not args.json and extra.get("mutant_failures"):
            for mf in extra["mutant_failures"]:
                print("SELF-VALIDATION-FAILED property=%s %s" % (prop, mf))
            print("ANALYSIS-ERROR property=%s the checker's own mutant corpus is not fully handled (see evidence)" % prop)
            return 2
        return 0
    except AnalysisError as e:
        print("ANALYSIS-ERROR property=%s %s" % (prop, e))
        if not args.no_evidence and not args.json:
            try:
                write_evidence(prop, args.tier, rep, time.time() - t0, [], [], [], error=str(e))
            except Exception:
                pass
        return 2
    except Exception:
        print("ANALYSIS-ERROR property=%s internal error" % prop)
        traceback.print_exc()
        return 2


if __name__ == "__main__":
    sys.exit(main())
