"""Canonical form of the parsed program, applied before any rule looks at it, so that the rules see the
same tree for sources that differ only in how a comparison or a negated if/else is written:

  * single-operator comparisons (==, !=, <, <=, >, >=, is, is not) are oriented: a constant operand goes to
    the right; otherwise the operand with the smaller source text goes to the left (the operator is mirrored);
  * `if not A: X else: Y` (with an else branch that is not an elif chain) is read as `if A: Y else: X`.

  * `while True:` whose first statement is `if C: break` (no else) is read as `while not C:`.

Positions are kept, so reports still point at the right line."""
import ast

_MIRROR = {ast.Eq: ast.Eq, ast.NotEq: ast.NotEq, ast.Lt: ast.Gt, ast.Gt: ast.Lt, ast.LtE: ast.GtE, ast.GtE: ast.LtE, ast.Is: ast.Is, ast.IsNot: ast.IsNot}


def _is_const(e):
    if isinstance(e, ast.Constant):
        return True
    if isinstance(e, ast.UnaryOp) and isinstance(e.op, (ast.USub, ast.UAdd)) and isinstance(e.operand, ast.Constant):
        return True
    if isinstance(e, (ast.Tuple, ast.List, ast.Set)) and all(_is_const(x) for x in e.elts):
        return True
    return False


class _Canon(ast.NodeTransformer):
    def visit_Compare(self, node):
        self.generic_visit(node)
        if len(node.ops) == 1 and type(node.ops[0]) in _MIRROR:
            l, r = node.left, node.comparators[0]
            kl, kr = (_is_const(l), ast.unparse(l)), (_is_const(r), ast.unparse(r))
            if kr < kl:
                return ast.copy_location(ast.Compare(left=r, ops=[_MIRROR[type(node.ops[0])]()], comparators=[l]), node)
        return node

    def visit_If(self, node):
        self.generic_visit(node)
        t = node.test
        if isinstance(t, ast.UnaryOp) and isinstance(t.op, ast.Not) and node.orelse and not (len(node.orelse) == 1 and isinstance(node.orelse[0], ast.If)):
            return ast.copy_location(ast.If(test=t.operand, body=node.orelse, orelse=node.body), node)
        return node


    def visit_While(self, node):
        self.generic_visit(node)
        if isinstance(node.test, ast.Constant) and node.test.value is True and not node.orelse and len(node.body) >= 2:
            f = node.body[0]
            if isinstance(f, ast.If) and not f.orelse and len(f.body) == 1 and isinstance(f.body[0], ast.Break):
                t = f.test
                nt = t.operand if isinstance(t, ast.UnaryOp) and isinstance(t.op, ast.Not) else ast.UnaryOp(op=ast.Not(), operand=t)
                ast.copy_location(nt, t)
                return ast.copy_location(ast.While(test=nt, body=node.body[1:], orelse=[]), node)
        return node


def canonical(tree):
    tree = _Canon().visit(tree)
    ast.fix_missing_locations(tree)
    return tree
