"""Canonical form of the parsed program, applied before any rule looks at it, so that the rules see the
same tree for sources that differ only in how a comparison or a negated if/else is written:

  * single-operator comparisons (==, !=, <, <=, >, >=, is, is not) are oriented: a constant operand goes to
    the right; otherwise the operand with the smaller source text goes to the left (the operator is mirrored);
  * `if not A: X else: Y` (with an else branch that is not an elif chain) is read as `if A: Y else: X`.

  * `while True:` whose first statement is `if C: break` (no else) is read as `while not C:`.

  * tests are read in negation normal form: `not (A and B)` is `not A or not B`, `not (x is y)` is `x is not y`,
    `not (x in y)` is `x not in y`, and in a boolean context `not not A` is `A`; an if/else whose test is a
    conjunction/disjunction is oriented to the polarity with fewer negations (ties: the conjunction), and
    `if x is not y: A else: B` / `if x not in y: A else: B` are read as `if x is y: B else: A` / `if x in y: B else: A`;
  * `v = E; return v` where `v` is used nowhere else is read as `return E`.

Positions are kept, so reports still point at the right line."""
import ast

_MIRROR = {ast.Eq: ast.Eq, ast.NotEq: ast.NotEq, ast.Lt: ast.Gt, ast.Gt: ast.Lt, ast.LtE: ast.GtE, ast.GtE: ast.LtE, ast.Is: ast.Is, ast.IsNot: ast.IsNot}


def _is_const(e):
    if isinstance(e, ast.Constant):
        return True
    if isinstance(e, ast.UnaryOp) and isinstance(e.op, (ast.USub, ast.UAdd)) and isinstance(e.operand, ast.Constant):
        return True
    if isinstance(e, (ast.Tuple, ast.List, ast.Set)) and all(_is_const(x) for x in e.elts):
        return True
    return False


_NEGCMP = {ast.Is: ast.IsNot, ast.IsNot: ast.Is, ast.In: ast.NotIn, ast.NotIn: ast.In}


def _negate(e, boolctx):
    """expression equal to `not e` (as a truth value when boolctx, as a value otherwise)"""
    if isinstance(e, ast.UnaryOp) and isinstance(e.op, ast.Not):
        if boolctx:
            return _test(e.operand)
        inner = e.operand
        if isinstance(inner, (ast.Compare, ast.BoolOp)) or (isinstance(inner, ast.UnaryOp) and isinstance(inner.op, ast.Not)):
            pass
        return ast.copy_location(ast.UnaryOp(op=ast.Not(), operand=e), e)
    if isinstance(e, ast.BoolOp):
        nop = ast.Or() if isinstance(e.op, ast.And) else ast.And()
        return ast.copy_location(ast.BoolOp(op=nop, values=[_negate(v, True) for v in e.values]), e)
    if isinstance(e, ast.Compare) and len(e.ops) == 1 and type(e.ops[0]) in _NEGCMP:
        return ast.copy_location(ast.Compare(left=e.left, ops=[_NEGCMP[type(e.ops[0])]()], comparators=e.comparators), e)
    return ast.copy_location(ast.UnaryOp(op=ast.Not(), operand=e), e)


def _test(e):
    """expression with the same truth value as e, negations pushed inward"""
    if isinstance(e, ast.UnaryOp) and isinstance(e.op, ast.Not):
        return _negate(e.operand, True)
    if isinstance(e, ast.BoolOp):
        return ast.copy_location(ast.BoolOp(op=e.op, values=[_test(v) for v in e.values]), e)
    return e


def _nots(e):
    return sum(1 for x in ast.walk(e) if isinstance(x, ast.UnaryOp) and isinstance(x.op, ast.Not))


def _polarity_key(e):
    return (_nots(e), 0 if isinstance(e, ast.BoolOp) and isinstance(e.op, ast.And) else 1)


class _Canon(ast.NodeTransformer):
    def visit_UnaryOp(self, node):
        self.generic_visit(node)
        if isinstance(node.op, ast.Not):
            o = node.operand
            if isinstance(o, ast.BoolOp) or (isinstance(o, ast.Compare) and len(o.ops) == 1 and type(o.ops[0]) in _NEGCMP):
                return _negate(o, True)
        return node

    def visit_IfExp(self, node):
        self.generic_visit(node)
        node.test = _test(node.test)
        return node

    def visit_Assert(self, node):
        self.generic_visit(node)
        node.test = _test(node.test)
        return node

    def visit_comprehension(self, node):
        self.generic_visit(node)
        node.ifs = [_test(t) for t in node.ifs]
        return node

    def _merge_returns(self, stmts, fn):
        out = []
        i = 0
        while i < len(stmts):
            s = stmts[i]
            if (i + 1 < len(stmts) and isinstance(s, ast.Assign) and len(s.targets) == 1 and isinstance(s.targets[0], ast.Name)
                    and isinstance(stmts[i + 1], ast.Return) and isinstance(stmts[i + 1].value, ast.Name) and stmts[i + 1].value.id == s.targets[0].id
                    and self._uses.get(s.targets[0].id, 0) == 2):
                out.append(ast.copy_location(ast.Return(value=s.value), s))
                i += 2
                continue
            out.append(s)
            i += 1
        return out

    def visit_FunctionDef(self, node):
        uses = {}
        for x in ast.walk(node):
            if isinstance(x, ast.Name):
                uses[x.id] = uses.get(x.id, 0) + 1
            elif isinstance(x, ast.arg):
                uses[x.arg] = uses.get(x.arg, 0) + 2
            elif isinstance(x, (ast.Global, ast.Nonlocal)):
                for n_ in x.names:
                    uses[n_] = uses.get(n_, 0) + 2
        saved = getattr(self, "_uses", {})
        self._uses = uses
        self.generic_visit(node)
        for sub in ast.walk(node):
            for f in ("body", "orelse", "finalbody"):
                v = getattr(sub, f, None)
                if isinstance(v, list) and v and isinstance(v[0], ast.stmt):
                    setattr(sub, f, self._merge_returns(v, node))
        self._uses = saved
        return node

    visit_AsyncFunctionDef = visit_FunctionDef

    def visit_Compare(self, node):
        self.generic_visit(node)
        if len(node.ops) == 1 and type(node.ops[0]) in _MIRROR:
            l, r = node.left, node.comparators[0]
            kl, kr = (_is_const(l), ast.unparse(l)), (_is_const(r), ast.unparse(r))
            if kr < kl:
                return ast.copy_location(ast.Compare(left=r, ops=[_MIRROR[type(node.ops[0])]()], comparators=[l]), node)
        return node

    def visit_If(self, node):
        self.generic_visit(node)
        node.test = t = _test(node.test)
        if node.orelse and not (len(node.orelse) == 1 and isinstance(node.orelse[0], ast.If)):
            if isinstance(t, ast.UnaryOp) and isinstance(t.op, ast.Not):
                return ast.copy_location(ast.If(test=t.operand, body=node.orelse, orelse=node.body), node)
            if isinstance(t, ast.Compare) and len(t.ops) == 1 and isinstance(t.ops[0], (ast.IsNot, ast.NotIn)):
                # `x is not y` / `x not in y` and their `not (...)` spellings are one test: read the positive form
                return ast.copy_location(ast.If(test=_negate(t, True), body=node.orelse, orelse=node.body), node)
            if isinstance(t, ast.BoolOp):
                nt = _negate(t, True)
                if _polarity_key(nt) < _polarity_key(t):
                    return ast.copy_location(ast.If(test=nt, body=node.orelse, orelse=node.body), node)
        return node


    def visit_While(self, node):
        self.generic_visit(node)
        node.test = _test(node.test)
        if isinstance(node.test, ast.Constant) and node.test.value is True and not node.orelse and len(node.body) >= 2:
            f = node.body[0]
            if isinstance(f, ast.If) and not f.orelse and len(f.body) == 1 and isinstance(f.body[0], ast.Break):
                t = f.test
                nt = t.operand if isinstance(t, ast.UnaryOp) and isinstance(t.op, ast.Not) else ast.UnaryOp(op=ast.Not(), operand=t)
                ast.copy_location(nt, t)
                return ast.copy_location(ast.While(test=_test(nt), body=node.body[1:], orelse=[]), node)
        return node


def canonical(tree):
    tree = _Canon().visit(tree)
    ast.fix_missing_locations(tree)
    return tree
