"""Statement-level control-flow graph with short-circuit expansion.

Nodes
  kind 'entry' / 'exit' (normal return) / 'raise' (exceptional exit)
  kind 'stmt'    simple statement (ast = the statement)
  kind 'test'    one atom of a branch condition (ast = the expression);
                 successors labelled 't' / 'f'
  kind 'forinit' evaluation of the iterable of a ``for`` (ast = iter expr)
  kind 'for'     loop head of a ``for``; successors 'iter' / 'done'
  kind 'with'    entry of a ``with`` (ast = the With statement)
  kind 'handler' entry of an ``except`` clause
  kind 'join'    synthetic (while-loop head)
Edge labels: 'n' next, 't', 'f', 'iter', 'done', 'e' exception.
"""
import ast
import collections

from .index import AnalysisError, walk_no_nested


class Node(object):
    __slots__ = ("id", "kind", "ast", "stmt", "succ", "pred", "loop")

    def __init__(self, id, kind, node=None, stmt=None):
        self.id = id
        self.kind = kind
        self.ast = node
        self.stmt = stmt if stmt is not None else node
        self.succ = []
        self.pred = []
        self.loop = None

    @property
    def lineno(self):
        n = self.ast if self.ast is not None and hasattr(self.ast, "lineno") else self.stmt
        return getattr(n, "lineno", 0)

    def __repr__(self):
        return "<%s#%d L%s>" % (self.kind, self.id, self.lineno)


class _Ctx(object):
    __slots__ = ("brk", "cont", "ret", "exc")

    def __init__(self, brk, cont, ret, exc):
        self.brk = brk
        self.cont = cont
        self.ret = ret
        self.exc = exc      # list of nodes an exception may transfer to

    def replace(self, **kw):
        c = _Ctx(self.brk, self.cont, self.ret, self.exc)
        for k, v in kw.items():
            setattr(c, k, v)
        return c


def _may_raise(node):
    for n in walk_no_nested(node):
        if isinstance(n, (ast.Call, ast.Subscript, ast.Raise, ast.Assert, ast.BinOp, ast.Compare, ast.Attribute, ast.Delete)):
            return True
    return False


def _catches_all(handler):
    if handler.type is None:
        return True
    t = handler.type
    names = []
    if isinstance(t, ast.Tuple):
        names = [getattr(e, "id", getattr(e, "attr", None)) for e in t.elts]
    else:
        names = [getattr(t, "id", getattr(t, "attr", None))]
    return any(n in ("Exception", "BaseException") for n in names)


class CFG(object):
    def __init__(self, fn_node, expand_bool=True):
        self.fn = fn_node
        self.expand_bool = expand_bool
        self.nodes = []
        self.entry = self._new("entry")
        self.exit = self._new("exit")
        self.rexit = self._new("raise")
        self.loops = {}   # loop stmt -> head node
        self.loop_exits = {}  # loop stmt -> node control goes to after the loop (break target)
        body = fn_node.body if not isinstance(fn_node, ast.Lambda) else [ast.Return(value=fn_node.body)]
        ctx = _Ctx(None, None, self.exit, [self.rexit])
        first = self._seq(body, self.exit, ctx)
        self._edge(self.entry, "n", first)
        for n in self.nodes:
            for lab, s in n.succ:
                s.pred.append((lab, n))

    # ------------------------------------------------------------ building
    def _new(self, kind, node=None, stmt=None):
        n = Node(len(self.nodes), kind, node, stmt)
        self.nodes.append(n)
        return n

    def _edge(self, a, label, b):
        a.succ.append((label, b))

    def _exc_edges(self, n, ctx, node=None):
        if _may_raise(node if node is not None else n.ast):
            for t in ctx.exc:
                self._edge(n, "e", t)

    def _seq(self, stmts, nxt, ctx):
        for s in reversed(stmts):
            nxt = self._stmt(s, nxt, ctx)
        return nxt

    def _cond(self, expr, t, f, ctx, stmt):
        if self.expand_bool:
            if isinstance(expr, ast.BoolOp):
                vals = list(expr.values)
                if isinstance(expr.op, ast.And):
                    cur = self._cond(vals[-1], t, f, ctx, stmt)
                    for v in reversed(vals[:-1]):
                        cur = self._cond(v, cur, f, ctx, stmt)
                    return cur
                else:
                    cur = self._cond(vals[-1], t, f, ctx, stmt)
                    for v in reversed(vals[:-1]):
                        cur = self._cond(v, t, cur, ctx, stmt)
                    return cur
            if isinstance(expr, ast.UnaryOp) and isinstance(expr.op, ast.Not):
                return self._cond(expr.operand, f, t, ctx, stmt)
        if isinstance(expr, ast.Constant) and not isinstance(expr.value, str):
            return t if expr.value else f
        n = self._new("test", expr, stmt)
        self._edge(n, "t", t)
        self._edge(n, "f", f)
        self._exc_edges(n, ctx)
        return n

    def _stmt(self, s, nxt, ctx):
        if isinstance(s, ast.If):
            t = self._seq(s.body, nxt, ctx)
            f = self._seq(s.orelse, nxt, ctx) if s.orelse else nxt
            return self._cond(s.test, t, f, ctx, s)
        if isinstance(s, ast.While):
            head = self._new("join", None, s)
            head.loop = s
            self.loops[s] = head
            self.loop_exits[s] = nxt
            els = self._seq(s.orelse, nxt, ctx) if s.orelse else nxt
            body = self._seq(s.body, head, ctx.replace(brk=nxt, cont=head))
            test = self._cond(s.test, body, els, ctx, s)
            self._edge(head, "n", test)
            return head
        if isinstance(s, (ast.For, ast.AsyncFor)):
            init = self._new("forinit", s.iter, s)
            head = self._new("for", s, s)
            head.loop = s
            self.loops[s] = head
            self.loop_exits[s] = nxt
            self._edge(init, "n", head)
            self._exc_edges(init, ctx, s.iter)
            els = self._seq(s.orelse, nxt, ctx) if s.orelse else nxt
            body = self._seq(s.body, head, ctx.replace(brk=nxt, cont=head))
            self._edge(head, "iter", body)
            self._edge(head, "done", els)
            return init
        if isinstance(s, ast.Try) or s.__class__.__name__ == "TryStar":
            if s.finalbody:
                def fin(target, c=ctx):
                    return self._seq(s.finalbody, target, c)
                after = fin(nxt)
                outer_exc = [fin(t) for t in ctx.exc]
                inner = ctx.replace(
                    ret=fin(ctx.ret) if ctx.ret is not None else None,
                    brk=fin(ctx.brk) if ctx.brk is not None else None,
                    cont=fin(ctx.cont) if ctx.cont is not None else None,
                    exc=outer_exc)
            else:
                after = nxt
                inner = ctx
            hentries = []
            catch_all = False
            for h in s.handlers:
                hn = self._new("handler", h, h)
                self._edge(hn, "n", self._seq(h.body, after, inner))
                hentries.append(hn)
                catch_all = catch_all or _catches_all(h)
            body_exc = list(hentries) + ([] if catch_all else list(inner.exc))
            els = self._seq(s.orelse, after, inner) if s.orelse else after
            return self._seq(s.body, els, inner.replace(exc=body_exc))
        if isinstance(s, (ast.With, ast.AsyncWith)):
            n = self._new("with", s, s)
            self._edge(n, "n", self._seq(s.body, nxt, ctx))
            for it in s.items:
                self._exc_edges(n, ctx, it.context_expr)
                break
            return n
        if isinstance(s, ast.Return):
            n = self._new("stmt", s, s)
            self._edge(n, "n", ctx.ret)
            if s.value is not None:
                self._exc_edges(n, ctx, s.value)
            return n
        if isinstance(s, ast.Raise):
            n = self._new("stmt", s, s)
            for t in ctx.exc:
                self._edge(n, "e", t)
            return n
        if isinstance(s, ast.Break):
            n = self._new("stmt", s, s)
            if ctx.brk is None:
                raise AnalysisError("break outside loop")
            self._edge(n, "n", ctx.brk)
            return n
        if isinstance(s, ast.Continue):
            n = self._new("stmt", s, s)
            self._edge(n, "n", ctx.cont)
            return n
        if isinstance(s, ast.Assert):
            fail = self._new("stmt", s, s)
            for t in ctx.exc:
                self._edge(fail, "e", t)
            return self._cond(s.test, nxt, fail, ctx, s)
        if s.__class__.__name__ == "Match":
            raise AnalysisError("match statement not supported by the CFG builder")
        n = self._new("stmt", s, s)
        self._edge(n, "n", nxt)
        if not isinstance(s, (ast.FunctionDef, ast.AsyncFunctionDef, ast.ClassDef, ast.Pass, ast.Import, ast.ImportFrom, ast.Global, ast.Nonlocal)):
            self._exc_edges(n, ctx)
        return n

    # ------------------------------------------------------------- queries
    def reach(self, starts, avoid=None, follow_exc=True, edge_ok=None):
        """Set of nodes reachable from `starts` (inclusive) without entering a
        node for which avoid(node) is true."""
        seen = set()
        dq = collections.deque()
        for s in starts:
            if avoid is not None and avoid(s):
                continue
            if s.id not in seen:
                seen.add(s.id)
                dq.append(s)
        out = []
        while dq:
            n = dq.popleft()
            out.append(n)
            for lab, t in n.succ:
                if not follow_exc and lab == "e":
                    continue
                if edge_ok is not None and not edge_ok(n, lab, t):
                    continue
                if t.id in seen:
                    continue
                if avoid is not None and avoid(t):
                    continue
                seen.add(t.id)
                dq.append(t)
        return out

    def succ_after(self, n, follow_exc=False):
        return [t for lab, t in n.succ if follow_exc or lab != "e"]

    def can_reach(self, src, dst_pred, avoid=None, follow_exc=False, skip_src=True, edge_ok=None):
        """Is there a path from the successors of src (or src itself) to a node
        satisfying dst_pred that avoids nodes satisfying `avoid`?"""
        starts = self.succ_after(src, follow_exc) if skip_src else [src]
        if edge_ok is not None and skip_src:
            starts = [t for lab, t in src.succ if (follow_exc or lab != "e") and edge_ok(src, lab, t)]
        for n in self.reach(starts, avoid=avoid, follow_exc=follow_exc, edge_ok=edge_ok):
            if dst_pred(n):
                return n
        return None

    def nodes_of_stmt(self, stmt):
        return [n for n in self.nodes if n.stmt is stmt]

    def nodes_where(self, pred):
        return [n for n in self.nodes if pred(n)]

    def live_nodes(self, follow_exc=True):
        return self.reach([self.entry], follow_exc=follow_exc)

    def must_pass(self, src, pred, targets=None, follow_exc=False, skip_src=True, edge_ok=None):
        """True iff every path from src to a target (default: normal exit)
        passes a node satisfying pred.  Returns (ok, witness_target)."""
        if targets is None:
            targets = lambda n: n is self.exit
        w = self.can_reach(src, targets, avoid=pred, follow_exc=follow_exc, skip_src=skip_src, edge_ok=edge_ok)
        return (w is None), w

    def dominated_by(self, node, pred, follow_exc=True, edge_ok=None):
        """True iff every path entry -> node passes a node satisfying pred
        (node itself not counted)."""
        if pred(node) and False:
            return True
        seen = self.reach([self.entry], avoid=lambda n: n is not node and pred(n), follow_exc=follow_exc, edge_ok=edge_ok)
        return all(n is not node for n in seen)


    # ----------------------------------------------------- branch correlation
    def stable_test_texts(self):
        """Texts of test expressions whose value cannot change between two
        evaluations: no call, every name assigned at most once in the function."""
        import ast as _ast
        counts = {}
        for n in walk_no_nested(self.fn):
            if isinstance(n, _ast.Name) and isinstance(n.ctx, (_ast.Store, _ast.Del)):
                counts[n.id] = counts.get(n.id, 0) + 1
        out = {}
        for n in self.nodes:
            if n.kind != "test":
                continue
            e = n.ast
            if any(isinstance(x, (_ast.Call, _ast.Subscript)) for x in _ast.walk(e)):
                continue
            names = [x.id for x in _ast.walk(e) if isinstance(x, _ast.Name)]
            attrs = [x for x in _ast.walk(e) if isinstance(x, _ast.Attribute)]
            if any(_ast.unparse(x) not in getattr(self, "stable_attrs", ()) for x in attrs):
                continue
            if all(counts.get(nm, 0) <= 1 for nm in names):
                out.setdefault(_ast.unparse(e), []).append(n)
        return {k: v for k, v in out.items() if len(v) >= 2}

    def facts(self, node):
        """(test text, label) pairs that hold whenever `node` executes, for
        stable test expressions evaluated more than once in the function."""
        res = []
        for text, tests in self.stable_test_texts().items():
            ids = {t.id for t in tests}
            for lab, other in (("t", "f"), ("f", "t")):
                # node unreachable when every `other` edge of these tests is blocked?  then... no:
                # node reachable only through `lab` edges  <=>  unreachable when `lab` edges are blocked
                reach = self.reach([self.entry], follow_exc=False,
                                   edge_ok=lambda s, l, d, ids=ids, lab=lab: not (s.id in ids and l == lab))
                if all(x is not node for x in reach):
                    res.append((text, lab))
        return res

    def consistent_with(self, node, extra=None):
        """edge filter forbidding branches that contradict the facts of `node`."""
        fs = self.facts(node)
        texts = self.stable_test_texts()
        block = set()
        for text, lab in fs:
            for t in texts[text]:
                block.add((t.id, "f" if lab == "t" else "t"))

        def edge_ok(s, l, d):
            if (s.id, l) in block:
                return False
            return extra(s, l, d) if extra is not None else True
        return edge_ok

    # ----------------------------------------------------------- dataflow
    def forward(self, init, transfer, refine=None, join=None, follow_exc=True, max_iter=20000):
        """Generic forward dataflow.  States must be hashable/comparable with
        ==; `None` is bottom (unreachable).  transfer(node, in)->out,
        refine(node, label, out)->state or None, join(a, b)->state.
        Returns dict node.id -> IN state."""
        IN = {self.entry.id: init}
        wl = collections.deque([self.entry])
        it = 0
        while wl:
            it += 1
            if it > max_iter:
                raise AnalysisError("dataflow did not converge")
            n = wl.popleft()
            st = IN.get(n.id)
            if st is None:
                continue
            out = transfer(n, st)
            for lab, t in n.succ:
                if lab == "e" and not follow_exc:
                    continue
                o = out if lab != "e" else st
                if refine is not None and o is not None:
                    o = refine(n, lab, o)
                if o is None:
                    continue
                old = IN.get(t.id)
                new = o if old is None else join(old, o)
                if old is None or new != old:
                    IN[t.id] = new
                    wl.append(t)
        return IN


def node_calls(n):
    """Call nodes evaluated at CFG node n (not descending into nested defs)."""
    if n.ast is None:
        return []
    a = n.ast
    if n.kind == "for":
        return []
    if n.kind == "with":
        out = []
        for it in a.items:
            out.extend(c for c in walk_no_nested(it.context_expr) if isinstance(c, ast.Call))
        return out
    if n.kind == "handler":
        return []
    if isinstance(a, (ast.FunctionDef, ast.AsyncFunctionDef, ast.ClassDef)):
        return []
    return [c for c in walk_no_nested(a) if isinstance(c, ast.Call)]


def node_exprs(n):
    """AST evaluated at this CFG node (for attribute read/write scans)."""
    a = n.ast
    if a is None or n.kind == "handler":
        return []
    if n.kind == "for":
        return [a.target]
    if n.kind == "with":
        return [it.context_expr for it in a.items] + [it.optional_vars for it in a.items if it.optional_vars is not None]
    if isinstance(a, (ast.FunctionDef, ast.AsyncFunctionDef, ast.ClassDef)):
        return []
    return [a]
